"""Checks of the optimizer wrapper: C07 C08 C09 C10(workspaces) C12 C15 C16(optimizer part) C17 C19."""
import math, copy, itertools
from fractions import Fraction as Fr
from concurrent.futures import ThreadPoolExecutor
import gen, runner, build
from proto import hx, hxs, dual, parse_val, parse_replies
from splinelib import NC, S_OF, peval, energy_exact, falling, coeff_table, re_part, du_part, ulp
import optlib as ol
import props_spline as ps


def harness(variant='asan', parts=('opt', 'ppoly', 'spline')):
    return build.build_harness(variant, parts)


def fv(tokens):
    return [re_part(parse_val(t)) for t in tokens]


def run_groups_model(groups, shards=16):
    """groups: lists of request lines that must stay together (they share object state)"""
    if not groups:
        return {}
    shards = max(1, min(shards, len(groups)))
    buckets = [[] for _ in range(shards)]
    # balance by size
    order = sorted(range(len(groups)), key=lambda i: -sum(len(l) for l in groups[i]))
    load = [0] * shards
    for gi in order:
        b = load.index(min(load))
        buckets[b] += groups[gi]
        load[b] += sum(len(l) for l in groups[gi])
    out = {}
    with ThreadPoolExecutor(shards) as ex:
        for rep in ex.map(lambda ls: runner.run_model(ls) if ls else {}, buckets):
            out.update(rep)
    return out


def run_cpp(groups, variant='asan', env=None):
    lines = [l for g in groups for l in g]
    return runner.run_harness(harness(variant), lines, env_extra=env)


def cells(chk, c, *extra):
    chk.cell(c.order, min(c.n, 4), c.d, c.tmType, c.smType, *extra)
    chk.count(f'order{c.order}')
    chk.count(f'tm{c.tmType}/sm{c.smType}')


def vec_close(a, b, tol, floor=Fr(1)):
    sc = max(floor, max((abs(x) for x in b), default=Fr(0)))
    if any(isinstance(x, float) for x in a):
        return False, float('inf')
    err = max((abs(x - y) for x, y in zip(a, b)), default=Fr(0)) / sc
    return err <= tol, float(err)


GTOL = {3: 1e-8, 5: 1e-7, 7: 1e-5}


# ----------------------------------------------------------------------------------------------- C07
def c07(chk):
    rng = chk.rng
    cases = []
    k = 0
    # all 256 flag sets x 3 orders, structure N in {1,2,3,5}, D in {1..4}: every flag set appears per order;
    # N, D, maps, weight and resolution rotate over them (thorough: several per flag set)
    reps = 1 if not chk.thorough() else 4
    for order in (3, 5, 7):
        fl = list(range(256))
        if not chk.thorough():
            fl = rng.sample(fl, 48) + [0, 255, 17, 238]
        for f in fl:
            for _ in range(reps):
                n = rng.choice([1, 2, 3, 5] if chk.thorough() else [1, 2, 3])
                d = rng.choice([1, 2, 3, 4])
                c = ol.rand_case(rng, order, d, n, flags=f, k=k % 900,
                                 steps=rng.choice([1, 2, 7, 64] if chk.thorough() else [1, 2, 5]))
                c.spec = ol.rand_spec(rng, zero_some=(rng.random() < 0.5))
                if abs(c.t0) > 1e8:
                    c.spec['kt'] = 0.0      # wall-clock start time: cost independent of global time (see optlib.rand_case)
                if rng.random() < 0.1:
                    c.x = ol.tiny_x(rng, c)           # durations decoding below one millisecond
                    chk.count('decoded durations below 1 ms')
                k += 1
                cases.append(c)
    corp = [ol.from_desc(d, k=900 + q) for q, d in enumerate(ol.corpus('C07'))]
    chk.notes['corpus_cases'] = len(corp)
    cases = corp + cases
    groups_q, groups_d = [], []
    for i, c in enumerate(cases):
        g = c.setup_lines(i, 'Q') + [c.eval_line(f'{i}.v', 'Q')]
        groups_q.append(g)
        gd = c.setup_lines(i, 'D')
        for t in range(len(c.x)):
            gd.append(c.eval_line(f'{i}.t{t}', 'D', tangent=t))
        groups_d.append(gd)
    cpp, _ = run_cpp(groups_q)
    mq = run_groups_model(groups_q)
    md = run_groups_model(groups_d)
    chk.evaluations += len(cases)
    chk.notes['dual_model_runs'] = sum(len(c.x) for c in cases)
    # Rounding yardstick: where the C++ misses the exact value by more than the tolerance, the IEEE-double instance of the model
    # (the same operation sequence) is run on that case; a deviation of the C++ within 32x the deviation of that instance is the
    # rounding of the algorithm at this scale (e.g. septic pieces of 0.2 ms), not a wrong gradient.  It is counted, not reported.
    def far(va, vm, tol):
        if any(isinstance(x, float) for x in va):
            return True
        return not vec_close(va, vm, tol)[0]
    def blocks_of(c):
        vars_, doff, total = c.layout()
        return [('time', list(range(0, c.n))), ('spatial', list(range(c.n, doff))), ('derivative', list(range(doff, total)))]

    def any_far(i, c):
        a, m = cpp[f'{i}.v'], mq[f'{i}.v']
        if far(fv(a['cost']), fv(m['cost']), GTOL[c.order]) or far(fv(a['grad']), fv(m['grad']), GTOL[c.order]):
            return True
        ga, gm = fv(a['grad']), fv(m['grad'])
        # the oracle below judges every block of the gradient on its own scale: so must the choice of the yardstick runs
        return any(rg and far([ga[q] for q in rg], [gm[q] for q in rg], GTOL[c.order]) for _, rg in blocks_of(c))
    suspects = [i for i, c in enumerate(cases) if 'cost' in cpp[f'{i}.v'] and any_far(i, c)]
    mf = run_groups_model([cases[i].setup_lines(i, 'F') + [cases[i].eval_line(f'{i}.v', 'F')] for i in suspects]) if suspects else {}
    chk.notes['float_yardstick_runs'] = len(suspects)

    def rounding_limited(i, key, idxs, va, vex):
        """True if the C++ loses at most 32x the digits the IEEE-double instance of the model loses on this case. The loss of
        the instance is the larger of its relative deviations on the cost and on the gradient (each on its own scale): one
        of the two can be small by luck (thorough tier, seed 3: 0.24 ms quintic, cost 1.5e-9 but gradient 1e-7)"""
        r = mf.get(f'{i}.v')
        ex = mq.get(f'{i}.v')
        if not r or key not in r:
            return False
        if any(isinstance(va[q], float) for q in idxs):
            return False
        loss_f = Fr(0)
        for k2 in ('cost', 'grad'):
            vf, ve = fv(r[k2]), fv(ex[k2])
            if any(isinstance(x, float) for x in vf) or len(vf) != len(ve):
                return False
            sc = max([Fr(1)] + [abs(x) for x in ve])
            loss_f = max(loss_f, max(abs(x - y) for x, y in zip(vf, ve)) / sc)
        sc = max([Fr(1)] + [abs(vex[q]) for q in idxs])
        loss_a = max(abs(va[q] - vex[q]) for q in idxs) / sc
        vf = fv(r[key])
        loss_f = max(loss_f, max(abs(vf[q] - vex[q]) for q in idxs) / sc)      # the same entries on the same scale
        return loss_a <= 32 * loss_f

    for i, c in enumerate(cases):
        cells(chk, c, 'wp' if c.spec['useWp'] else 'nowp', 'rho>0' if c.rho > 0 else 'rho=0')
        a, m = cpp[f'{i}.v'], mq[f'{i}.v']
        if 'cost' not in a:
            chk.mismatch('harness could not evaluate the case', c.describe(), {'reply': str(a)[:300]}); continue
        tol = GTOL[c.order]
        # correspondence: cost and gradient of the model
        ca, cm = fv(a['cost'])[0], fv(m['cost'])[0]
        if isinstance(ca, float) or abs(ca - cm) > tol * max(Fr(1), abs(cm)):
            if rounding_limited(i, 'cost', [0], [ca], [cm]):
                chk.count('rounding-limited (IEEE instance of the model deviates as much): cost')
            else:
                chk.mismatch('cost differs from the model', c.describe(), {'impl': float(ca), 'model': float(cm)})
        ok, err = vec_close(fv(a['grad']), fv(m['grad']), tol)
        chk.disc(f'{c.order}/grad_vs_model', err)
        if not ok:
            if rounding_limited(i, 'grad', range(len(c.x)), fv(a['grad']), fv(m['grad'])):
                chk.count('rounding-limited (IEEE instance of the model deviates as much): gradient')
            else:
                chk.mismatch(f'gradient differs from the model (scaled error {err:.3e})', c.describe())
        # oracle: exact gradient of the returned cost from the dual-number model
        exact = [du_part(parse_val(md[f'{i}.t{t}']['cost'][0])) for t in range(len(c.x))]
        gm = fv(m['grad'])
        if gm != exact:
            chk.mismatch('model gradient is not the exact derivative of the model cost (dual numbers)', c.describe())
        ga = fv(a['grad'])
        vars_, doff, total = c.layout()
        blocks = [('time', range(0, c.n)), ('spatial', range(c.n, doff)), ('derivative', range(doff, total))]
        for name, rg in blocks:
            rg = list(rg)
            if not rg:
                continue
            ok, err = vec_close([ga[q] for q in rg], [exact[q] for q in rg], tol)
            chk.disc(f'{c.order}/grad_{name}', err)
            if not ok and rounding_limited(i, 'grad', rg, ga, exact):
                chk.count(f'rounding-limited (IEEE instance of the model deviates as much): {name} block')
            elif not ok:
                q = max(rg, key=lambda q: abs(ga[q] - exact[q]) if not isinstance(ga[q], float) else 1e300)
                chk.violation(f'optimizer gradient ({name} block) is not the gradient of the returned cost', c.describe(),
                              {'component': q, 'got': float(ga[q]), 'exact': float(exact[q]), 'scaled_error': err})
    chk.sample(cases[0].describe())


# ----------------------------------------------------------------------------------------------- C08
def c08(chk):
    rng = chk.rng
    cases = []
    k = 0
    for order in (3, 5, 7):
        for n in ([1, 2, 3, 5] if not chk.thorough() else [1, 2, 3, 4, 5, 8]):
            for d in ([1, 2, 3] if not chk.thorough() else [1, 2, 3, 4]):
                for _ in range(2 if not chk.thorough() else 5):
                    c = ol.rand_case(rng, order, d, n, k=k % 900, steps=rng.choice([1, 2, 3, 8, 64] if chk.thorough() else [1, 2, 3, 8]))
                    c.spec = ol.rand_spec(rng, zero_some=False)
                    if abs(c.t0) > 1e8:
                        c.spec['kt'] = 0.0      # wall-clock start time: cost independent of global time (see optlib.rand_case)
                    if rng.random() < 0.2:
                        c.x = ol.tiny_x(rng, c)       # durations decoding below one millisecond
                        chk.count('decoded durations below 1 ms')
                    k += 1
                    cases.append(c)
    def aborted(i, c):
        # a third of the cases: an earlier evaluation on the same optimizer was aborted by an exception from the running cost
        if i % 3:
            return []
        ca = copy.copy(c); ca.spec = dict(c.spec, pertKind=9, pertIdx=rng.randrange(0, 2 * (c.steps + 1))); ca.x = ol.rand_x(rng, c)
        chk.count('earlier evaluation aborted by an exception')
        return [ca.eval_line(f'{i}.abort', 'X', rec=0)]
    groups = [c.setup_lines(i, 'Q') + aborted(i, c) + [c.eval_line(f'{i}.v', 'Q', rec=1)] for i, c in enumerate(cases)]
    cpp, _ = run_cpp(groups)
    mq = run_groups_model(groups)
    chk.evaluations += len(cases)
    for i, c in enumerate(cases):
        cells(chk, c, f'K={c.steps}')
        a, m = cpp[f'{i}.v'], mq[f'{i}.v']
        c08_oracle(chk, c, a)
        # correspondence: the samples and the cost of the model
        na, nm = int(a['samples'][0]), int(m['samples'][0])
        if na != nm or a['sampleseg'] != m['sampleseg']:
            chk.mismatch('number / segment indices of the samples handed to the running cost differ from the model', c.describe(),
                         {'impl': na, 'model': nm}); continue
        ok, err = vec_close(fv(a['samples'][1:]), fv(m['samples'][1:]), GTOL[c.order])
        chk.disc(f'{c.order}/samples_vs_model', err)
        if not ok:
            chk.mismatch(f'samples differ from the model (scaled error {err:.3e})', c.describe())
        ca, cm = fv(a['cost'])[0], fv(m['cost'])[0]
        if isinstance(ca, float) or abs(ca - cm) > GTOL[c.order] * max(Fr(1), abs(cm)):
            chk.mismatch('cost differs from the model', c.describe(), {'impl': float(ca), 'model': float(cm)})
    chk.sample(cases[0].describe())


def c08_oracle(chk, c, a):
    """cost = time + waypoint + trapezoid + rho*energy recomputed from the implementation's own published trajectory;
    every sample carries the right segment index, local/global time and derivatives of that trajectory"""
    sp = c.spec
    d, n, K = c.d, c.n, c.steps
    nc = NC[c.order]
    s = S_OF[c.order]
    if 'coeffs' not in a:
        chk.violation('no spline exposed after evaluate', c.describe()); return
    Ts = fv(a['times'])
    q = fv(a['wps']); wps = [q[r * d:(r + 1) * d] for r in range(n + 1)]
    # "decoded": the durations / waypoints the exposed spline was built from must be the maps applied to the decision vector
    ex_T, ex_W, _ = ol.decode_exact(c, c.x)
    for i_, (got, want) in enumerate(zip(Ts, ex_T)):
        if isinstance(got, float) or abs(got - want) > 1e-12 * max(Fr(1), abs(want)):
            chk.violation('the duration the evaluation used is not the time map applied to the decision variable', c.describe(),
                          {'segment': i_, 'used': float(got) if not isinstance(got, float) else str(got), 'toTime(x)': float(want)})
            return
    for r_ in range(n + 1):
        for j_ in range(d):
            got, want = wps[r_][j_], ex_W[r_][j_]
            if isinstance(got, float) or abs(got - want) > 1e-12 * max(Fr(1), abs(want)):
                chk.violation('the waypoint the evaluation used is not the spatial map applied to the decision variables (or the reference)',
                              c.describe(), {'point': r_, 'dim': j_, 'used': float(got) if not isinstance(got, float) else str(got), 'decoded': float(want)})
                return
    co = coeff_table(a['coeffs'], n, nc, d)
    cost = fv(a['cost'])[0]
    if isinstance(cost, float):
        chk.violation('returned cost is not finite', c.describe()); return
    smp = fv(a['samples'][1:])
    segidx = [int(x) for x in a['sampleseg']]
    width = 2 + 5 * d
    if int(a['samples'][0]) != n * (K + 1) or len(smp) != n * (K + 1) * width:
        chk.violation('the running cost is not sampled K+1 times per segment', c.describe(), {'samples': int(a['samples'][0]), 'expected': n * (K + 1)})
        return
    integral = Fr(0)
    start = Fr(c.t0)
    pos = 0
    tol = 1e-9
    for i in range(n):
        T = Ts[i]
        for k in range(K + 1):
            rec = smp[pos * width:(pos + 1) * width]
            si = segidx[pos]; pos += 1
            t_exact = Fr(k, K) * T
            tg_exact = start + t_exact
            t, tg = rec[0], rec[1]
            pv = [rec[2 + m * d: 2 + (m + 1) * d] for m in range(5)]
            bad = None
            if si != i:
                bad = f'segment index {si} instead of {i}'
            elif abs(t - t_exact) > 1e-12 * max(Fr(1), abs(T)):
                bad = 'local time is not (k/K)·T'
            elif abs(tg - tg_exact) > 1e-12 * max(Fr(1), abs(tg_exact), abs(start)):
                bad = 'global time is not start time + elapsed durations + local time'
            else:
                for m in range(5):
                    for j in range(d):
                        cj = [co[i][p][j] for p in range(nc)]
                        want = peval(cj, t, m)
                        sc = max(Fr(1), max(abs(falling(p, m) * cj[p]) * abs(t) ** (p - m) for p in range(m, nc)) if m < nc else 1)
                        if abs(pv[m][j] - want) > 1e-10 * sc:
                            bad = f'derivative {m} of the sample is not that of the trajectory (dim {j})'
                            break
                    if bad:
                        break
            if bad:
                chk.violation('sample fidelity: ' + bad, c.describe(), {'segment': i, 'k': k, 't': float(t), 't_global': float(tg)})
                return
            w = Fr(1, 2) if k in (0, K) else Fr(1)
            integral += w * (T / K) * ol.run_cost_exact(sp, d, tg, i, pv[0], pv[1], pv[2], pv[3], pv[4])
        start += T
    energy = Fr(0)
    for i in range(n):
        for j in range(d):
            energy += energy_exact([co[i][p][j] for p in range(nc)], Ts[i], s)
    total = ol.time_cost_exact(sp, Ts) + ol.wp_cost_exact(sp, wps) + integral + (Fr(c.rho) * energy if c.rho > 0 else 0)
    mag = max(Fr(1), abs(ol.time_cost_exact(sp, Ts)), abs(ol.wp_cost_exact(sp, wps)), abs(integral), abs(Fr(c.rho) * energy))
    err = abs(cost - total) / mag
    chk.disc(f'{c.order}/cost_decomposition', err)
    if err > tol:
        chk.violation('returned cost is not time cost + waypoint cost + trapezoid integral + weight·energy of the decoded trajectory',
                      c.describe(), {'cost': float(cost), 'recomputed': float(total), 'time': float(ol.time_cost_exact(sp, Ts)),
                                     'waypoint': float(ol.wp_cost_exact(sp, wps)), 'integral': float(integral), 'energy': float(energy)})


# ----------------------------------------------------------------------------------------------- C09
def c09(chk):
    rng = chk.rng
    cases = []
    k = 0
    combos = [(o, n, d) for o in (3, 5, 7) for n in range(1, 7) for d in (1, 2, 3)]
    if not chk.thorough():
        combos = rng.sample(combos, 9) + [(7, 2, 2), (5, 1, 1), (3, 6, 3)]
    for (o, n, d) in combos:
        for f in range(256):
            for smType in ((0, 1) if d >= 2 else (0,)):
                if not chk.thorough() and smType == 1 and f % 3:
                    continue
                c = ol.rand_case(rng, o, d, n, flags=f, smType=smType, k=k % 900, steps=1, rho=0.0)
                c.spec = dict(ol.rand_spec(rng), **{q: 0.0 for q in ('kp', 'kv', 'ka', 'kj', 'ks', 'kx', 'kt', 'ki', 'ww', 'wu')})
                k += 1
                cases.append(c)
    groups = []
    for i, c in enumerate(cases):
        g = c.setup_lines(i, 'Q') + [f'{i}.dim Q opt_dim {c.slot}', f'{i}.guess Q opt_guess {c.slot}', c.eval_line(f'{i}.v', 'Q')]
        groups.append(g)
    cpp, _ = run_cpp(groups)
    mq = run_groups_model(groups)
    chk.evaluations += len(cases)
    follow = []
    for i, c in enumerate(cases):
        chk.cell(c.order, c.n, c.d, c.flags, c.smType)
        chk.count(f'order{c.order}')
        vars_, doff, total = c.layout()
        dim = int(cpp[f'{i}.dim']['dim'][0])
        if dim != int(mq[f'{i}.dim']['dim'][0]):
            chk.mismatch('reported dimension differs from the model', c.describe(), {'impl': dim, 'model': mq[f'{i}.dim']['dim'][0]})
        if dim != total:
            chk.violation('reported dimension is not (segments + spatial variables of optimised waypoints + flagged derivative blocks the order has)',
                          c.describe(), {'reported': dim, 'expected': total}); continue
        # decoding of a random decision vector: layout, pinned quantities
        a, m = cpp[f'{i}.v'], mq[f'{i}.v']
        Ts, wps, bc = ol.decode_exact(c, c.x)
        got_T = fv(a['times']); qq = fv(a['wps']); got_W = [qq[r * c.d:(r + 1) * c.d] for r in range(c.n + 1)]
        bb = fv(a['bc']); got_B = [bb[r * c.d:(r + 1) * c.d] for r in range(6)]
        for key in ('times', 'wps', 'bc'):
            ok, err = vec_close(fv(a[key]), fv(m[key]), 1e-12)
            if not ok:
                chk.mismatch(f'decoded {key} differ from the model', c.describe())
        ok1, _ = vec_close(got_T, Ts, 1e-13)
        ok2 = all(vec_close(x, y, 1e-13)[0] for x, y in zip(got_W, wps))
        used = [0, 1, 2][:S_OF[c.order] - 1]
        ok3 = all(vec_close(got_B[b], bc[b], 0)[0] and vec_close(got_B[3 + b], bc[3 + b], 0)[0] for b in used)
        if not (ok1 and ok2 and ok3):
            chk.violation('decision vector does not decode according to the documented layout (time variables, optimised waypoints in index order, '
                          'flagged derivative blocks) or an unflagged quantity is not pinned to its reference value', c.describe(),
                          {'times_ok': ok1, 'waypoints_ok': ok2, 'boundary_ok': ok3})
        # initial guess round trip
        x0 = fv(cpp[f'{i}.guess']['x'])
        ok, err = vec_close(x0, fv(mq[f'{i}.guess']['x']), 1e-12)
        if not ok and c.tmType != 0:
            chk.mismatch('initial guess differs from the model', c.describe())
        if len(x0) != total:
            chk.violation('initial guess has the wrong size', c.describe(), {'size': len(x0), 'dimension': total}); continue
        c2 = copy.copy(c); c2.x = [float(v) for v in x0]
        follow.append((i, c2))
    # second pass: evaluate at the initial guess (decodes back to the reference) and compare the exposed spline with a
    # spline built directly from the decoded data
    groups2 = [c.setup_lines(f'g{i}', 'X') + [c.eval_line(f'g{i}.v', 'X')] for i, c in follow]
    cpp2, _ = run_cpp(groups2)
    direct = []
    for i, c in follow:
        a = cpp2[f'g{i}.v']
        got_T = fv(a['times']); qq = fv(a['wps']); bb = fv(a['bc'])
        refT = [Fr(v) for v in c.h]
        ok1, e1 = vec_close(got_T, refT, 1e-12)
        ok2, e2 = vec_close(qq, [Fr(v) for r in c.P for v in r], 1e-12)
        used = [b for b in range(6) if (b % 3) < S_OF[c.order] - 1]
        ok3 = all(vec_close(bb[b * c.d:(b + 1) * c.d], [Fr(v) for v in c.bc[b]], 1e-13)[0] for b in used)
        chk.disc('guess_roundtrip', max(e1, e2))
        if not (ok1 and ok2 and ok3):
            chk.violation('the generated initial guess does not decode back to the reference durations / waypoints / boundary states',
                          c.describe(), {'times_ok': ok1, 'waypoints_ok': ok2, 'boundary_ok': ok3})
        # exposed spline = the one defined by the decoded data
        sc = gen.SplineCase(c.order, c.d, c.n, [float(v) for v in got_T], [[float(v) for v in qq[r * c.d:(r + 1) * c.d]] for r in range(c.n + 1)],
                            [[float(v) for v in bb[b * c.d:(b + 1) * c.d]] for b in range(6)], t0=c.t0, mode='dur')
        direct.append((i, c, sc, a))
    dl = [sc.line(f's{i}', 'X') for i, c, sc, a in direct]
    cpp3, _ = runner.run_harness(harness(), dl)
    for i, c, sc, a in direct:
        if cpp3[f's{i}']['coeffs'] != a['coeffs']:
            chk.violation('after an evaluation with the built-in workspace the exposed spline is not the one defined by the decision vector',
                          c.describe())
    c09_reconfig(chk)
    chk.sample(cases[0].describe())


def c09_reconfig(chk):
    """sequences of reconfiguration (flags, maps, new initial state) between queries: a query always reflects the current configuration"""
    rng = chk.rng
    nseq = 60 if not chk.thorough() else 500
    groups, plans = [], []
    for sq in range(nseq):
        o = rng.choice([3, 5, 7]); d = rng.choice([1, 2, 3]); n = rng.randint(1, 5)
        c = ol.rand_case(rng, o, d, n, k=900 + sq % 90, smType=(1 if d >= 2 and rng.random() < 0.6 else 0))
        g = c.setup_lines(f'r{sq}', 'Q')
        plan = []
        cur = copy.copy(c)
        for st in range(rng.randint(6, 14)):
            op = rng.choice(['flip', 'flip', 'flags', 'maps', 'init', 'dim', 'dim', 'guess', 'relocate'])
            rid = f'r{sq}.{st}'
            if op == 'flip':
                cur = copy.copy(cur); cur.flags = cur.flags ^ (1 << rng.randrange(8))
                g.append(f'{rid} Q opt_flags {cur.slot} {cur.flags}')
            elif op == 'flags':
                cur = copy.copy(cur); cur.flags = rng.randrange(256)
                g.append(f'{rid} Q opt_flags {cur.slot} {cur.flags}')
            elif op == 'maps':
                cur = copy.copy(cur)
                cur.tmInst = rng.choice([0, 1]); cur.smInst = rng.choice([0, 1, 2])
                g.append(f'{rid} Q opt_maps {cur.slot} {cur.tmInst} {cur.smInst}')
            elif op == 'init':
                nn = rng.randint(1, 5)
                t = ol.rand_case(rng, o, d, nn, flags=cur.flags, tmType=cur.tmType, smType=cur.smType)
                cur = copy.copy(cur); cur.n = nn; cur.h, cur.P, cur.bc, cur.t0 = t.h, t.P, t.bc, t.t0
                if rng.random() < 0.4:
                    # repair-and-retry: the same problem is first submitted with a defect (rejected), then correctly; nothing of the
                    # rejected call may be trusted by the accepted one
                    bad = copy.copy(cur)
                    kind = rng.randrange(3)
                    if kind == 0:
                        bad.h = list(cur.h); bad.h[rng.randrange(nn)] = 5e-4
                    elif kind == 1:
                        bad.P = [list(r) for r in cur.P]; bad.P[rng.randrange(nn + 1)][rng.randrange(d)] = float('nan')
                    else:
                        bad.t0 = float('inf')
                    g.append(bad.setup_lines(rid + '.bad', 'Q')[2].replace(f'{rid}.bad.c', rid + '.bad'))
                    chk.count('reconfig: rejected initialisation followed by the repaired one')
                g.append(cur.setup_lines(rid, 'Q')[2].replace(f'{rid}.c', rid))
            elif op == 'relocate':
                # the optimizer is moved to (or copied to) another object and used from there: the configuration travels with it
                cur = copy.copy(cur)
                new_slot = cur.slot + 1 if cur.slot % 2 == 0 else cur.slot - 1
                how = rng.choice(['opt_move', 'opt_move', 'opt_copy'])
                g.append(f'{rid} Q {how} {cur.slot} {new_slot}')
                if how == 'opt_copy':
                    g.append(f'{rid}.d Q opt_destroy {cur.slot}')
                cur.slot = new_slot
                chk.count('reconfig: ' + how)
                g.append(f'{rid}.q Q opt_guess {cur.slot}'); plan.append((rid + '.q', 'guess', copy.copy(cur)))
            elif op == 'dim':
                g.append(f'{rid} Q opt_dim {cur.slot}'); plan.append((rid, 'dim', copy.copy(cur)))
            else:
                g.append(f'{rid} Q opt_guess {cur.slot}'); plan.append((rid, 'guess', copy.copy(cur)))
        rid = f'r{sq}.z'
        g.append(f'{rid} Q opt_dim {cur.slot}'); plan.append((rid, 'dim', copy.copy(cur)))
        groups.append(g); plans.append(plan)
    cpp, _ = run_cpp(groups)
    mq = run_groups_model(groups)
    chk.evaluations += sum(len(g) for g in groups)
    for g, plan in zip(groups, plans):
        for rid, kind, cur in plan:
            chk.count('reconfig_' + kind)
            chk.cell('reconfig', cur.order, cur.d, kind, cur.smType)
            total = cur.layout()[2]
            a, m = cpp[rid], mq[rid]
            hist = {'history': [l[:140] for l in g[:g.index(next(x for x in g if x.startswith(rid + ' '))) + 1]][-10:]}
            if kind == 'dim':
                dim = int(a['dim'][0])
                if dim != int(m['dim'][0]):
                    chk.mismatch('dimension after a reconfiguration history differs from the model', hist)
                if dim != total:
                    chk.violation('after a reconfiguration history the reported dimension does not reflect the current flags / maps / state',
                                  dict(hist, **cur.describe()), {'reported': dim, 'expected': total})
            else:
                x0 = a['x']
                if len(x0) != total:
                    chk.violation('after a reconfiguration history the initial guess has a stale size', dict(hist, **cur.describe()),
                                  {'size': len(x0), 'expected': total})
                elif cur.tmType != 0:
                    ok, err = vec_close(fv(x0), fv(m['x']), 1e-12)
                    if not ok:
                        chk.mismatch('initial guess after a reconfiguration history differs from the model', hist)


# ----------------------------------------------------------------------------------------------- C10 (workspaces) + splines
def c10(chk):
    ps.c10_splines(chk)
    import props_ppoly as _pp
    _pp.len_across_updates(chk)      # the trajectory object's own queries on a reused object
    rng = chk.rng
    groups, pairs = [], []
    k = 0
    for order in (3, 5, 7):
        for d in (1, 2, 3):
            for tm in (0, 1):
                # one shared external workspace (id 5) reused across problems of different sizes and across two optimizers
                g = []
                for step in range(5 if not chk.thorough() else 16):
                    n = rng.choice([1, 2, 3, 5, 8])
                    c = ol.rand_case(rng, order, d, n, tmType=tm, smType=0, k=(k % 2) * 7 + 300)
                    k += 1
                    rid = f'w{order}{d}{tm}.{step}'
                    sl = c.setup_lines(rid, 'X')
                    if step >= 2 and rng.random() < 0.6:
                        # the optimizer object itself is reused (no `opt_new`): re-initialised with a problem of another size, half of
                        # the time after a first, rejected attempt with the same size (repair and retry)
                        # (initialisation is the last configuration call: a later setter would rebuild whatever it left stale)
                        sl = c.setup_lines(rid, 'X', init_last=True)[1:]
                        chk.count('optimizer object reused across problems')
                        if rng.random() < 0.5:
                            bad = copy.copy(c); bad.h = list(c.h); bad.h[rng.randrange(n)] = 5e-4
                            sl.insert(len(sl) - 1, bad.setup_lines(rid + '.bad', 'X')[2])
                            chk.count('optimizer object reused: rejected attempt first')
                    g += sl
                    if rng.random() < 0.5:
                        # an evaluation on the shared and on the built-in workspace is aborted half-way by an exception from the
                        # user's running cost (e.g. a rejected trial point): the next evaluation must not see anything of it
                        ca = copy.copy(c); ca.spec = dict(c.spec, pertKind=9, pertIdx=rng.randrange(0, 2 * (c.steps + 1)))
                        ca.x = ol.rand_x(rng, c)
                        g.append(ca.eval_line(rid + '.abort5', 'X', ws=5))
                        g.append(ca.eval_line(rid + '.abortI', 'X', ws=-1))
                        chk.count('workspace history: evaluation aborted by an exception')
                    g.append(c.eval_line(rid + '.reused', 'X', ws=5))
                    g.append(c.eval_line(rid + '.fresh', 'X', ws=1000 + k))
                    g.append(c.eval_line(rid + '.internal', 'X', ws=-1))
                    # the same problem on a brand-new optimizer object
                    cn = copy.copy(c); cn.slot = ol.slot_id(order, d, 380 + k % 5)
                    g += cn.setup_lines(rid + '.n', 'X')
                    g.append(cn.eval_line(rid + '.newopt', 'X', ws=-1))
                    pairs.append((rid, c))
                groups.append(g)
    cpp, _ = run_cpp(groups)
    chk.evaluations += len(pairs) * 3
    for rid, c in pairs:
        cells(chk, c, 'workspace-reuse')
        a, b, i3, i4 = cpp[rid + '.reused'], cpp[rid + '.fresh'], cpp[rid + '.internal'], cpp[rid + '.newopt']
        for key in ('cost', 'grad', 'coeffs', 'times'):
            if a.get(key) != b.get(key) or a.get(key) != i3.get(key) or a.get(key) != i4.get(key):
                chk.violation(f'an optimizer workspace reused across problems/sizes/optimizers gives a different {key} than a fresh one (bit-for-bit)',
                              c.describe(), {'request': rid})
                break


# ----------------------------------------------------------------------------------------------- C12
def c12(chk):
    rng = chk.rng
    groups, plan = [], []
    k = 0
    ncase = 18 if not chk.thorough() else 120
    for q in range(ncase):
        order = rng.choice([3, 5, 7]); d = rng.choice([1, 2, 3]); n = rng.choice([2, 3, 4, 5, 7, 9])
        c = ol.rand_case(rng, order, d, n, k=400 + k % 50, steps=rng.choice([1, 3, 6]))
        c.spec = ol.rand_spec(rng, zero_some=False)      # uses every argument incl. global time
        k += 1
        rid = f's{q}'
        g = c.setup_lines(rid, 'X')
        ws = 2000 + q * 50
        g.append(c.eval_line(rid + '.serial', 'X', ws=ws))
        scheds = []
        if n <= 5:
            perms = list(itertools.permutations(range(n)))
            if len(perms) > 24 and not chk.thorough():
                perms = rng.sample(perms, 24)
            for p in perms:
                scheds.append('perm %d %s' % (n, ' '.join(map(str, p))))
        else:
            for _ in range(10):
                p = list(range(n)); rng.shuffle(p)
                scheds.append('perm %d %s' % (n, ' '.join(map(str, p))))
        scheds += ['rev', 'threads 2', 'threads 4', 'threads 8', 'chunks 2', 'chunks 3']
        for si, sc in enumerate(scheds):
            # a fresh workspace for every schedule, and one whose previous evaluation had other durations
            g.append(c.eval_line(f'{rid}.e{si}', 'X', ws=ws + 1 + si, exec_=sc))
            plan.append((rid, f'{rid}.e{si}', c, sc))
        c2 = copy.copy(c); c2.x = ol.rand_x(rng, c)
        g.append(c2.eval_line(rid + '.other', 'X', ws=ws + 49))
        g.append(c.eval_line(rid + '.stale', 'X', ws=ws + 49, exec_='rev'))
        plan.append((rid, rid + '.stale', c, 'rev after other durations'))
        groups.append(g)
    cpp, _ = run_cpp(groups)
    chk.evaluations += len(plan)
    for rid, eid, c, sc in plan:
        chk.cell(c.order, c.n, sc.split()[0])
        chk.count('schedule:' + sc.split()[0])
        a, b = cpp[rid + '.serial'], cpp[eid]
        if a['cost'] != b['cost'] or a['grad'] != b['grad']:
            chk.violation('cost/gradient depend on the order or parallelism in which the executor processes the segments (not bit-identical to serial)',
                          c.describe(), {'schedule': sc, 'serial_cost': float(fv(a['cost'])[0]), 'cost': float(fv(b['cost'])[0])})
    c12_concurrent(chk, 'asan')
    c12_concurrent(chk, 'tsan')
    c12_concurrent(chk, 'omp')       # OpenMP build: evaluations from inside an OpenMP team, with the library's OpenMPExecutor
    chk.sample({'schedules': 'all permutations for N<=4 (sampled for N=5), random permutations above, reversed, 2/4/8 interleaved threads, 2/3 chunked threads'})


def c12_concurrent(chk, variant):
    """several threads evaluate concurrently on one configured optimizer, each with its own workspace; with and without a prior
    single-threaded call on the freshly configured optimizer"""
    rng = chk.rng
    parts = ('opt_min',) if variant in ('tsan', 'omp') else ('opt', 'ppoly', 'spline')
    exe = build.build_harness(variant, parts)
    ncase = (6 if not chk.thorough() else 30)
    for q in range(ncase):
        small = variant in ('tsan', 'omp')
        order, d = (5, 2) if small and (q // 2) % 2 == 0 else ((3, 1) if small else (rng.choice([3, 5, 7]), rng.choice([1, 2, 3])))
        n = rng.choice([1, 3, 6])
        c = ol.rand_case(rng, order, d, n, k=500 + q % 40, steps=3, smType=(1 if d >= 2 and q % 3 == 0 else 0))
        prior = q % 2 == 0
        init_last = (q % 4) in (1, 2)
        rid = f'c{q}'
        g = c.setup_lines(rid, 'X', init_last=init_last)
        g.append(f'{rid}.h X opt_ptrs {c.slot} {c.slot}')       # hook H1: the cache must be clean after the last setter
        if prior:
            g.append(f'{rid}.p X opt_dim {c.slot}')
        nth = rng.choice([2, 4, 8])
        g.append(f'{rid}.conc X opt_conc {c.slot} {nth} 3 {len(c.x)} {hxs(c.x)} {c.spec_tokens("X")}')
        g.append(c.eval_line(rid + '.after', 'X', ws=3000 + q))
        env = {'TSAN_OPTIONS': 'halt_on_error=0:exitcode=66:report_signal_unsafe=0'} if variant == 'tsan' else None
        chk.evaluations += 1
        chk.cell('concurrent', variant, nth, 'prior' if prior else 'no-prior')
        chk.count(f'concurrent/{variant}/' + ('prior' if prior else 'no-prior'))
        try:
            rep, err = runner.run_harness(exe, g, env_extra=env)
        except runner.HarnessCrash as e:
            race = 'data race' in e.stderr or 'ThreadSanitizer' in e.stderr
            chk.violation(('data race reported by ThreadSanitizer' if race else 'crash / sanitizer abort') +
                          ' during concurrent evaluations on one configured optimizer with per-thread workspaces'
                          + ('' if prior else ' (no prior single-threaded call on the freshly configured optimizer)'),
                          dict(c.describe(), threads=nth, prior_single_threaded_call=prior), {'stderr': e.stderr[-1500:]})
            continue
        hk = rep.get(rid + '.h', {})
        if 'dirty' in hk and int(hk['dirty'][0]) != 0:
            chk.violation('the layout cache is left dirty by the last configuration call: the first evaluations (const, possibly '
                          'concurrent) would rebuild shared state (hook H1)',
                          dict(c.describe(), init_is_last_setter=init_last), {'dirty': 1})
        ser = rep[rid + '.after']
        tc = rep[rid + '.conc'].get('tcost*', [rep[rid + '.conc'].get('tcost')])
        tg = rep[rid + '.conc'].get('tgrad*', [rep[rid + '.conc'].get('tgrad')])
        for t in range(len(tc)):
            if tc[t] != ser['cost'] or tg[t] != ser['grad']:
                chk.violation('a concurrent evaluation returns a different value than the same call made sequentially',
                              dict(c.describe(), threads=nth, prior_single_threaded_call=prior), {'thread': t})
                break


# ----------------------------------------------------------------------------------------------- C15
def c15(chk):
    rng = chk.rng
    groups, plan = [], []
    nh = 40 if not chk.thorough() else 300
    for q in range(nh):
        order = rng.choice([3, 5, 7]); d = rng.choice([2, 3]); n = rng.choice([1, 2, 4])
        tm = rng.choice([0, 2]); sm = rng.choice([0, 1])
        base = ol.slot_id(order, d, 600 + (q % 30) * 10)
        c = ol.rand_case(rng, order, d, n, tmType=tm, smType=sm)
        c.slot = base
        rid = f'h{q}'
        g = c.setup_lines(rid, 'Q')
        state = {base: copy.copy(c)}           # python mirror: slot -> configuration (values only)
        ws_exists = {base: False}
        live = [base]
        slots = [base + i for i in range(5)]
        st = 0

        def ev(s, tag):
            cc = state[s]
            x = ol.rand_x(rng, cc)
            cc2 = copy.copy(cc); cc2.x = x; cc2.slot = s
            g.append(cc2.eval_line(f'{rid}.{st}.{tag}', 'Q', ws=-1, x=x))
            plan.append((f'{rid}.{st}.{tag}', 'eval', cc2, list(g)))
            ws_exists[s] = True

        for st in range(rng.randint(6, 14)):
            op = rng.choice(['copy', 'assign', 'assign', 'selfassign', 'maps', 'mutate', 'destroy', 'eval', 'eval', 'ptrs', 'move', 'reject', 'snap', 'snap'])
            if len(live) < 2 and op in ('assign', 'destroy'):
                op = 'copy'                    # assignments and destructions need a second object
            s = rng.choice(live)
            if op == 'copy':
                t = rng.choice(slots)
                if t in live:
                    continue
                g.append(f'{rid}.{st} Q opt_copy {s} {t}')
                state[t] = copy.copy(state[s]); ws_exists[t] = ws_exists[s]; live.append(t)
                g.append(f'{rid}.{st}.p X opt_ptrs {t} {s}'); plan.append((f'{rid}.{st}.p', 'ptrs', (state[t], ws_exists[t], True), list(g)))
                ev(t, 'c')
            elif op == 'snap':
                # the copy / assignment is made from inside a user callback, in the middle of an evaluate() of the source
                # ("keep a snapshot of the optimizer at the best cost so far"); the snapshot then evaluates another vector
                t = rng.choice(slots)
                if t == s:
                    continue
                mode = 1 if t in live else 0
                cc = state[s]
                x = ol.rand_x(rng, cc)
                cc2 = copy.copy(cc); cc2.x = x; cc2.slot = s
                line = cc2.eval_line(f'{rid}.{st}.sn', 'Q', ws=-1, x=x).replace(f' opt_eval {s} ', f' opt_snap {s} {t} {mode} ', 1)
                g.append(line)
                plan.append((f'{rid}.{st}.sn', 'eval', cc2, list(g)))
                ws_exists[s] = True
                state[t] = copy.copy(state[s]); ws_exists[t] = 'any'
                if t not in live:
                    live.append(t)
                chk.count('copy made from inside a callback of a running evaluation' if mode == 0 else 'assignment made from inside a callback of a running evaluation')
                ev(t, 'sc')
                ev(s, 'ss')
            elif op == 'reject':
                # a rejected initialisation (empty time points) flags the object invalid and leaves its configuration as it was;
                # it still evaluates, and copies / assignments from it must carry the whole configuration
                cs = state[s]
                g.append(f'{rid}.{st} Q opt_init {s} tp 0 1 {hx(cs.t0)} {hxs(cs.P[0])} ' + ' '.join(hxs(b) for b in cs.bc))
                chk.count('source flagged invalid by a rejected initialisation')
                ev(s, 'r')
            elif op == 'move':
                # move construction into a fresh slot; the moved-from object is destroyed at once. Before it, the source is put on
                # a random mix of own/user maps (a move constructor must re-bind default maps and keep user maps)
                free = [u for u in slots if u not in live]
                if not free:
                    continue
                t = rng.choice(free)
                cs = copy.copy(state[s]); cs.tmInst = rng.choice([0, 1]); cs.smInst = rng.choice([0, 1, 2])
                state[s] = cs
                g.append(f'{rid}.{st}.m Q opt_maps {s} {cs.tmInst} {cs.smInst}')
                g.append(f'{rid}.{st} Q opt_move {s} {t}')
                chk.count('move construction')
                state[t] = cs; ws_exists[t] = False
                live.remove(s); del state[s]; live.append(t)
                g.append(f'{rid}.{st}.p X opt_ptrs {t} {t}'); plan.append((f'{rid}.{st}.p', 'ptrs', (state[t], 'any', False), list(g)))
                ev(t, 'v')
                # re-applying the same flags must not change anything
                g.append(f'{rid}.{st}.f Q opt_flags {t} {state[t].flags}')
                ev(t, 'w')
            elif op == 'assign':
                t = rng.choice(live)
                if t == s:
                    continue
                if rng.random() < 0.5:
                    # the target currently runs on *other* map instances than the source (for the paraboloid map the per-waypoint
                    # number of unconstrained coordinates then differs): nothing of the target's old configuration may survive
                    ct = copy.copy(state[t])
                    ct.tmInst = rng.choice([i for i in (0, 1) if i != state[s].tmInst] or [0])
                    ct.smInst = rng.choice([i for i in (0, 1, 2) if i != state[s].smInst])
                    state[t] = ct
                    g.append(f'{rid}.{st}.m Q opt_maps {t} {ct.tmInst} {ct.smInst}')
                    chk.count('assignment over an optimizer that runs on other map instances')
                g.append(f'{rid}.{st} Q opt_assign {s} {t}')
                chk.count('assignment between two optimizers')
                state[t] = copy.copy(state[s]); ws_exists[t] = ws_exists[s]
                g.append(f'{rid}.{st}.p X opt_ptrs {t} {s}'); plan.append((f'{rid}.{st}.p', 'ptrs', (state[t], ws_exists[t], True), list(g)))
                ev(t, 'a')
            elif op == 'selfassign':
                g.append(f'{rid}.{st} Q opt_assign {s} {s}')
                ev(s, 's')
            elif op == 'maps':
                cc = copy.copy(state[s]); cc.tmInst = rng.choice([0, 1]); cc.smInst = rng.choice([0, 1, 2])
                # reference waypoints stay as they are (the optimizer keeps them); only the maps change
                state[s] = cc
                g.append(f'{rid}.{st} Q opt_maps {s} {cc.tmInst} {cc.smInst}')
            elif op == 'mutate':
                cc = copy.copy(state[s]); cc.flags = rng.randrange(256); cc.rho = rng.choice([0.0, 1.0])
                state[s] = cc
                g.append(f'{rid}.{st} Q opt_flags {s} {cc.flags}')
                g.append(f'{rid}.{st}.r Q opt_rho {s} {hx(cc.rho)}')
            elif op == 'destroy':
                if len(live) < 2:
                    continue
                g.append(f'{rid}.{st} Q opt_destroy {s}')
                live.remove(s); del state[s]
                # everybody else must keep working
                for t in list(live):
                    ev(t, f'd{t % 10}')
            elif op == 'eval':
                ev(s, 'e')
            else:
                g.append(f'{rid}.{st}.p X opt_ptrs {s} {s}'); plan.append((f'{rid}.{st}.p', 'ptrs', (state[s], ws_exists[s], False), list(g)))
        groups.append(g)
    cpp, _ = run_cpp(groups)
    mq = run_groups_model(groups)
    chk.evaluations += sum(len(g) for g in groups)
    for rid, kind, info, hist in plan:
        chk.count('c15_' + kind)
        a = cpp[rid]
        tail = {'history': [l[:150] for l in hist[-12:]]}
        if kind == 'eval':
            cc = info
            chk.cell('eval', cc.order, cc.d, cc.tmType, cc.smType, cc.tmInst, cc.smInst)
            m = mq[rid]
            if 'cost' not in a:
                chk.violation('optimizer unusable after this copy/assign/destroy history', tail, {'reply': str(a)[:200]}); continue
            ca, cm = fv(a['cost'])[0], fv(m['cost'])[0]
            ok, err = vec_close(fv(a['grad']), fv(m['grad']), GTOL[cc.order])
            okc = True
            if 'coeffs' in a and 'coeffs' in m and len(a['coeffs']) == len(m['coeffs']):
                okc, _ = vec_close(fv(a['coeffs']), fv(m['coeffs']), GTOL[cc.order])      # the spline the object exposes afterwards
            elif 'coeffs' in m:
                okc = False
            if isinstance(ca, float) or abs(ca - cm) > GTOL[cc.order] * max(Fr(1), abs(cm)) or not ok or not okc:
                # the model has value semantics: an object depends only on the values it was copied from
                chk.violation('after this history an optimizer does not evaluate like an independent deep copy (shared or dangling state)',
                              dict(tail, **cc.describe()), {'cost': float(ca) if not isinstance(ca, float) else str(ca), 'expected': float(cm)})
        else:
            cc, wsx, has_src = info
            chk.cell('ptrs', cc.tmInst, cc.smInst, str(wsx))
            if a.get('ptrs', ['nohook'])[0] == 'nohook':
                chk.count('ptrs_nohook'); continue
            own_tm, own_sm, user_tm, user_sm, has_ws, shared = (int(x) for x in a['ptrs'])
            want_own_tm = 1 if cc.tmInst == 0 else 0
            want_own_sm = 1 if cc.smInst == 0 else 0
            # user instances: one object per time-map type; identity spatial map: one; paraboloid: two distinct ones
            want_user_tm = 1 if cc.tmInst else 0
            want_user_sm = (cc.smInst if cc.smType == 1 else 1) if cc.smInst else 0
            if own_tm != want_own_tm or own_sm != want_own_sm or user_tm != want_user_tm or user_sm != want_user_sm:
                chk.violation('a copy/assigned optimizer does not re-bind its default maps to its own instances (or does not keep referencing the user-supplied map)',
                              dict(tail, **cc.describe()), {'uses_own_default_time_map': own_tm, 'uses_own_default_spatial_map': own_sm,
                                                            'user_time_map': user_tm, 'user_spatial_map': user_sm})
            if shared:
                chk.violation('copy shares the built-in workspace with its source', dict(tail, **cc.describe()))
            if wsx != 'any' and has_ws != (1 if wsx else 0):
                chk.violation('built-in workspace presence not preserved by copy/assignment', dict(tail, **cc.describe()),
                              {'has_workspace': has_ws, 'expected': wsx})
    # copies of spline objects: covered through PPoly copy/assign histories (C11 machinery) and the spline slots
    chk.sample({'history': groups[0][:8]})


# ----------------------------------------------------------------------------------------------- C16 (optimizer part)
NAN, PINF, NINF = float('nan'), float('inf'), float('-inf')


def c16_opt(chk):
    rng = chk.rng
    groups, plan = [], []
    thr = 1e-3
    for order in (3, 5, 7):
        for d in (1, 2):
            slot = ol.slot_id(order, d, 700)
            g = [f'v{order}{d}.new Q opt_new {slot} {order} {d} 0 0']
            base = ol.rand_case(rng, order, d, 3)
            variants = [('valid', {})]
            fields = ['t0'] + [f'h{i}' for i in range(3)] + [f'P{i}{j}' for i in range(4) for j in range(d)] + \
                     [f'bc{b}{j}' for b in range(6) for j in range(d)]
            for f in (fields if chk.thorough() else rng.sample(fields, 8) + ['t0', 'h1', 'bc00', 'bc10', 'bc20', 'bc30', 'bc50']):
                for bad in (NAN, PINF, NINF) if chk.thorough() else (rng.choice([NAN, PINF, NINF]),):
                    variants.append((f'{f}={bad}', {f: bad}))
            variants += [('duration at threshold', {'h1': thr}), ('duration one ulp below threshold', {'h1': math.nextafter(thr, 0)}),
                         ('duration one ulp above threshold', {'h1': math.nextafter(thr, 1)}), ('duration zero', {'h0': 0.0}),
                         ('duration negative', {'h2': -0.5}), ('duration 0.999 ms', {'h0': 0.999e-3}),
                         ('too few waypoints', {'rows': 3}), ('too many waypoints', {'rows': 5}), ('no segments', {'n': 0, 'rows': 1}),
                         ('no segments no rows', {'n': 0, 'rows': 0}), ('time points', {'tp': True}), ('empty time points', {'tp': True, 'n': 0, 'rows': 1}),
                         ('time points non-increasing', {'tp': True, 'tpvals': [0.0, 1.0, 1.0, 2.0]}),
                         ('time points with inf', {'tp': True, 'tpvals': [0.0, 1.0, PINF, PINF]}),
                         ('valid', {}), ('several errors', {'h0': NAN, 'P00': PINF, 'bc00': NAN, 'rows': 5})]
            # finite values of extreme magnitude are *valid* input (sums, norms or products of them overflow; a verdict computed
            # from an aggregate instead of from every entry would reject them)
            big = [1e308, -1.5e308, 1.7976931348623157e308]
            variants += [('huge finite waypoint row', {f'P1{j}': rng.choice(big[:1] + big[2:]) for j in range(d)}),
                         ('huge finite negative waypoint row', {f'P2{j}': big[1] for j in range(d)}),
                         ('huge finite boundary state', {f'bc{b}{j}': rng.choice(big) for b in (0, 3) for j in range(d)}),
                         ('huge finite start time', {'t0': rng.choice(big)}),
                         ('huge finite mixed-sign waypoint row', {f'P3{j}': big[j % 2] for j in range(d)})]
            rng.shuffle(variants)
            # make sure the sequence "valid, then empty time points" occurs
            variants += [('valid', {}), ('empty time points', {'tp': True, 'n': 0, 'rows': 1}), ('valid', {})]
            for vi, (name, ch) in enumerate(variants):
                n = ch.get('n', 3)
                rows = ch.get('rows', n + 1)
                h = list(base.h[:n]) + [1.0] * max(0, n - 3)
                P = [list(r) for r in (base.P * 3)[:rows]]
                bc = [list(b) for b in base.bc]
                t0 = base.t0
                for f, v in ch.items():
                    if f == 't0': t0 = v
                    elif f[0] == 'h' and f[1:].isdigit() and int(f[1:]) < len(h): h[int(f[1:])] = v
                    elif f[0] == 'P' and len(f) == 3 and int(f[1]) < len(P): P[int(f[1])][int(f[2])] = v
                    elif f.startswith('bc') and len(f) == 4: bc[int(f[2])][int(f[3])] = v
                rid = f'v{order}{d}.{vi}'
                if ch.get('tp'):
                    tps = ch.get('tpvals')
                    if tps is None:
                        tps = [t0] if n > 0 else []
                        for x in h:
                            tps.append(tps[-1] + x)
                        if n == 0:
                            tps = []
                    line = f'{rid} Q opt_init {slot} tp {len(tps)} {len(P)} {hx(t0)} {hxs(tps)} ' + ' '.join(hxs(r) for r in P) + ' ' + ' '.join(hxs(b) for b in bc)
                    hh = [tps[i + 1] - tps[i] for i in range(len(tps) - 1)]
                    tt0 = tps[0] if tps else None
                    expect = None if not tps else valid_expected(order, hh, P, bc, tt0)
                    if not tps:
                        expect = False
                else:
                    line = f'{rid} Q opt_init {slot} dur {len(h)} {len(P)} {hx(t0)} {hxs(h)} ' + ' '.join(hxs(r) for r in P) + ' ' + ' '.join(hxs(b) for b in bc)
                    expect = valid_expected(order, h, P, bc, t0)
                g.append(' '.join(line.split()))
                plan.append((rid, name, expect, order, d, list(g)))
            groups.append(g)
    cpp, _ = run_cpp(groups)
    mq = run_groups_model(groups)
    chk.evaluations += len(plan)
    for rid, name, expect, order, d, hist in plan:
        a, m = cpp[rid], mq[rid]
        chk.count('opt:' + name.split('=')[0].rstrip('0123456789'))
        chk.cell('opt', order, name)
        ret, valid, msg, cnt = (int(x) for x in a['ok'])
        tail = {'order': order, 'dim': d, 'variant': name, 'request': hist[-1][:300], 'previous': [l.split()[0] for l in hist[-4:-1]]}
        if a['ok'] != m['ok']:
            chk.mismatch('validation verdict / message / error count differ from the model', tail, {'impl': a['ok'], 'model': m['ok']})
        if ret != (1 if expect else 0):
            chk.violation('initialisation verdict is wrong: success must be reported exactly when there is at least one segment, one more waypoint '
                          'than durations, everything the order uses is finite and every duration is at least one millisecond', tail,
                          {'returned': ret, 'expected': expect})
        if valid != ret or msg != (0 if ret else 1):
            chk.violation('verdict reported incoherently: validity flag / bool conversion / message availability disagree with the returned result',
                          tail, {'returned': ret, 'isValid(2=bool conversion differs)': valid, 'message_available': msg})
        # (after `setInitState` with empty time points the object keeps its previous data: a direct checkValidity() then judges
        # those data, not the rejected call - the same exception as below)
        if 'after' in a and [int(x) for x in a['after']] != [1, 1, 1] and 'empty time points' not in name:
            chk.violation('a read-only validity query changes what the object reports afterwards (stored message / flag / verdict)', tail,
                          {'message_same_after_checkValidity(out)': a['after'][0], 'message_same_after_checkValidity()': a['after'][1],
                           'verdicts_same': a['after'][2]})
        dv, dm = (int(x) for x in a['direct'])
        if dv != ret and 'empty time points' not in name:
            chk.violation('checkValidity() disagrees with the verdict stored by setInitState', tail, {'checkValidity': dv, 'returned': ret})


def valid_expected(order, h, P, bc, t0):
    fin = math.isfinite
    if len(h) < 1 or len(P) != len(h) + 1 or not fin(t0):
        return False
    if not all(fin(x) and x >= 1e-3 for x in h):
        return False
    if not all(fin(x) for r in P for x in r):
        return False
    used = [b for b in range(6) if (b % 3) < S_OF[order] - 1]
    return all(fin(x) for b in used for x in bc[b])


def c16(chk):
    import props_ppoly as pp
    c16_opt(chk)
    pp.c16_ppoly(chk)
    chk.sample({'variants': 'every field with NaN/+Inf/-Inf, size mismatches, durations at 1e-3 and its neighbouring doubles, time-point form, '
                            'empty time points after a valid state, several errors at once; PPoly: <2 breakpoints, row-count mismatch, nc > fixed order, nc <= 0'})


class _Tagged:
    """the check object with every report prefixed (which build of the harness produced the reply)"""
    def __init__(self, chk, tag):
        self.__dict__['chk'] = chk; self.__dict__['tag'] = tag
    def __getattr__(self, k): return getattr(self.__dict__['chk'], k)
    def __setattr__(self, k, v): setattr(self.__dict__['chk'], k, v)
    def violation(self, what, *a, **k): return self.__dict__['chk'].violation(self.__dict__['tag'] + what, *a, **k)
    def mismatch(self, what, *a, **k): return self.__dict__['chk'].mismatch(self.__dict__['tag'] + what, *a, **k)


# ----------------------------------------------------------------------------------------------- C17
def c17(chk):
    rng = chk.rng
    lines, plan = [], []
    taus = [0.0, -0.0, 5e-324, -5e-324, 1e-300, -1e-300]
    x = 0.0
    for _ in range(40):
        x = math.nextafter(x, 1); taus.append(x)
    x = 0.0
    for _ in range(40):
        x = math.nextafter(x, -1); taus.append(x)
    for e in range(-40, 21):
        for s in (1, -1):
            v = s * 2.0 ** e
            if abs(v) <= 1e6:
                taus += [v, math.nextafter(v, 2 * v), math.nextafter(v, 0)]
    nrand = 300 if not chk.thorough() else 5000
    taus += [rng.uniform(-3, 3) for _ in range(nrand)] + [rng.choice([-1, 1]) * 10 ** rng.uniform(-12, 6) for _ in range(nrand)]
    taus = [t for t in taus if abs(t) <= 1e6]
    Ts = [1.0, math.nextafter(1.0, 2), math.nextafter(1.0, 0), 0.5, 2.0, 1e-6, 1e6] + [10 ** rng.uniform(-6, 6) for _ in range(nrand)]
    Ts += [1.0 + s_ * 2.0 ** -k_ for k_ in range(1, 53) for s_ in (1, -1)] + [rng.uniform(0.9, 1.1) for _ in range(nrand // 3)]
    Ts += [float(ol.to_time(0, 0, t_)) for t_ in taus if abs(t_) < 50 and t_ != 0 and abs(t_) > 1e-300]        # tau -> T -> tau round trip
    rid = 0
    for t in taus:
        lines.append(f'{rid} Q tm 0 0 toTime {hx(t)}'); plan.append(('toTime', t)); rid += 1
        g = rng.choice([1.0, -2.5, 0.375])
        lines.append(f'{rid} Q tm 0 0 backward {hx(t)} {hx(0.0)} {hx(g)}'); plan.append(('backward', (t, g))); rid += 1
    for T in Ts:
        lines.append(f'{rid} F tm 0 0 toTau {hx(T)}'); plan.append(('toTau', T)); rid += 1
    for t in rng.sample(taus, 40):
        for fn in ('toTime', 'toTau'):
            lines.append(f'{rid} Q tm 1 0 {fn} {hx(t)}'); plan.append(('ident', t)); rid += 1
        lines.append(f'{rid} Q tm 1 0 backward {hx(t)} {hx(t)} {hx(0.75)}'); plan.append(('identb', 0.75)); rid += 1
    # statelessness: one persistent map object answers every request again, in other orders (reversed; each duration next to its
    # reciprocal; toTime / toTau / backward interleaved); the answers must be bit-identical to those of fresh objects
    base_n = len(lines)
    replay = []
    recip = [T for T in Ts if T > 0 and 1.0 / T != T and 1.0 / (1.0 / T) == T][:400] + [2.0, 0.5, 0.25, 4.0, 10.0, 0.1, 0.2, 5.0, 8.0, 0.125]
    for T in recip:
        replay.append(('toTau', (T,))); replay.append(('toTau', (1.0 / T,))); replay.append(('toTau', (T,)))
    for q in range(base_n - 1, -1, -1):
        kind, info = plan[q]
        if kind == 'toTime': replay.append(('toTime', (info,)))
        elif kind == 'toTau': replay.append(('toTau', (info,)))
        elif kind == 'backward': replay.append(('backward', (info[0], 0.0, info[1])))
    mixed = list(replay)
    rng.shuffle(mixed)
    replay += mixed[:2000]
    fresh_rid = {}
    for fn, args in replay:
        key = (fn,) + tuple(hx(a_) for a_ in args)
        if key not in fresh_rid:
            lines.append(f'{rid} X tm 0 0 {fn} {" ".join(hx(a_) for a_ in args)}'); plan.append(('fresh', key)); fresh_rid[key] = rid; rid += 1
    for fn, args in replay:
        key = (fn,) + tuple(hx(a_) for a_ in args)
        lines.append(f'{rid} X tm 0 7 {fn} {" ".join(hx(a_) for a_ in args)}'); plan.append(('persistent', key)); rid += 1
    cpp_asan, _ = runner.run_harness(harness(), lines)
    # the same requests on a build for this machine's instruction set (-O2 -march=native): feature-macro-guarded fast paths of the
    # time map exist only there; the oracle below is applied to both builds
    cpp_native, _ = runner.run_harness(build.build_harness('native', ('ppoly',)), lines)
    mod = runner.run_model_sharded(lines, 8)
    chk.evaluations += len(lines)
    full_plan = plan
    outer = chk
    for tag, cpp in (('', cpp_asan), ('[build -O2 -march=native] ', cpp_native)):
        chk = _Tagged(outer, tag)
        plan = full_plan
        bad_state = 0
        for q in range(base_n, len(lines)):
            kind, key = plan[q]
            if kind == 'persistent':
                chk.count('persistent-object replay')
                if cpp[str(q)]['r'] != cpp[str(fresh_rid[key])]['r'] and bad_state < 5:
                    bad_state += 1
                    chk.violation('a time map gives a different answer to the same request depending on the calls made before (state carried between calls)',
                                  {'function': key[0], 'arguments_hex': list(key[1:]), 'previous_requests': [l.split(' ', 2)[2] for l in lines[max(base_n, q - 3):q]]},
                                  {'persistent_object': cpp[str(q)]['r'], 'fresh_object': cpp[str(fresh_rid[key])]['r']})
        plan = plan[:base_n]
        toT = {}
        for q, (kind, info) in enumerate(plan):
            a, m = cpp[str(q)], mod[str(q)]
            chk.count(kind)
            va = parse_val(a['r'][0]); vm = re_part(parse_val(m['r'][0]))
            if kind == 'toTime':
                t = info
                chk.cell('toTime', 'pos' if t > 0 else ('neg' if t < 0 else 'zero'), int(math.log10(abs(t))) if t else 0)
                ex = ol.to_time(0, 0, t)
                if isinstance(va, float) or abs(va - ex) > 4e-16 * abs(ex):
                    chk.violation('toTime is not the documented map', {'tau': t, 'tau_hex': hx(t)}, {'got': float(va), 'exact': float(ex)})
                if vm != ex:
                    chk.mismatch('model toTime differs from the closed form', {'tau': t})
                if not isinstance(va, float) and va <= 0:
                    chk.violation('toTime returned a non-positive duration', {'tau': t}, {'T': float(va)})
                toT[t] = va
            elif kind == 'backward':
                t, g = info
                chk.cell('backward', 'pos' if t > 0 else ('neg' if t < 0 else 'zero'), int(math.log10(abs(t))) if t else 0)
                tt = Fr(t)
                der = tt + 1 if tt > 0 else (1 - tt) / (((tt / 2 - 1) * tt + 1) ** 2)
                ex = Fr(g) * der
                if isinstance(va, float) or abs(va - ex) > 8e-16 * abs(ex):
                    chk.violation('backward does not multiply the incoming gradient by the derivative of the map', {'tau': t, 'tau_hex': hx(t), 'g': g},
                                  {'got': float(va), 'exact': float(ex)})
                if vm != ex:
                    chk.mismatch('model backward differs from g * d(toTime)/dtau', {'tau': t})
            elif kind == 'toTau':
                T = info
                chk.cell('toTau', '>1' if T > 1 else '<=1', int(math.log10(T)))
                if a['r'] != m['r']:
                    d = abs(float(va) - float(vm))
                    # the square root's argument (2/T - 1 resp. 2T - 1) is rounded absolutely: near T = 1 the result is only
                    # determined to a few 1e-16 *absolute* (an equivalent formula such as sqrt((2-T)/T) differs there by
                    # many ulp of a tiny tau) - negative control B07
                    if d > 4 * ulp(float(vm)) + 8 * 2.0 ** -53 * max(1.0, abs(float(vm))):
                        chk.mismatch('toTau differs from the IEEE-double instance of the model (same operations)', {'T': T}, {'impl': float(va), 'model': float(vm)})
                # inverse: toTime(toTau(T)) = T up to the rounding of the square root (relative, conditioned by dT/dtau)
                back = ol.to_time(0, 0, float(va))
                tauv = Fr(float(va))
                der = tauv + 1 if tauv > 0 else (1 - tauv) / (((tauv / 2 - 1) * tauv + 1) ** 2)
                allowed = 8 * (Fr(ulp(float(va))) * der + Fr(ulp(T)))
                chk.disc('toTau_roundtrip_rel', abs(back - Fr(T)) / Fr(T))
                if abs(back - Fr(T)) > allowed + Fr(T) * Fr(1, 10 ** 14):
                    chk.violation('toTau is not the inverse of toTime', {'T': T, 'T_hex': hx(T)}, {'tau': float(va), 'toTime(tau)': float(back)})
            elif kind == 'ident':
                if float(va) != info and not (info == 0 and float(va) == 0):
                    chk.violation('identity time map does not pass values through unchanged', {'x': info}, {'got': float(va)})
            else:
                if float(va) != info:
                    chk.violation('identity time map does not pass gradients through unchanged', {'g': info}, {'got': float(va)})
        # monotone: non-decreasing between adjacent doubles, strictly increasing once arguments differ by more than rounding
        ts = sorted(toT)
        for x0, x1 in zip(ts, ts[1:]):
            if isinstance(toT[x0], float) or isinstance(toT[x1], float):
                continue
            if toT[x1] < toT[x0]:
                chk.violation('toTime is decreasing between two arguments', {'tau0': x0, 'tau1': x1, 'tau0_hex': hx(x0), 'tau1_hex': hx(x1)},
                              {'T0': float(toT[x0]), 'T1': float(toT[x1])})
            elif toT[x1] == toT[x0] and (x1 - x0) > 1e-12 * max(1.0, abs(x0), abs(x1)) and abs(x0) < 1e3 and (x1 - x0) > 64 * ulp(max(abs(x0), abs(x1), 1.0)) * max(1.0, float(toT[x0])):
                chk.violation('toTime is not strictly increasing although the arguments differ by more than rounding', {'tau0': x0, 'tau1': x1},
                              {'T': float(toT[x0])})
    chk = outer
    chk.sample({'taus': taus[:6], 'Ts': Ts[:6]})


# ----------------------------------------------------------------------------------------------- C19
def abs_cost_terms(c, a):
    """sum of the magnitudes of all cost terms (time, waypoint, every weighted quadrature sample, weighted energy) of an evaluation reply"""
    sp = c.spec; d, n, K = c.d, c.n, c.steps
    nc = NC[c.order]; s = S_OF[c.order]
    Ts = fv(a['times']); q = fv(a['wps']); wps = [q[r * d:(r + 1) * d] for r in range(n + 1)]
    co = coeff_table(a['coeffs'], n, nc, d)
    smp = fv(a['samples'][1:]); width = 2 + 5 * d
    tot = abs(ol.time_cost_exact(sp, Ts)) + abs(ol.wp_cost_exact(sp, wps))
    pos = 0
    for i in range(n):
        for k in range(K + 1):
            rec = smp[pos * width:(pos + 1) * width]; pos += 1
            pv = [rec[2 + m * d: 2 + (m + 1) * d] for m in range(5)]
            w = Fr(1, 2) if k in (0, K) else Fr(1)
            # magnitude of the individual monomials of the running cost
            f = {kk: abs(Fr(sp[kk])) for kk in ('kp', 'kv', 'ka', 'kj', 'ks', 'kx', 'kt', 'ki')}
            dotabs = lambda x, y: sum(abs(m_ * n_) for m_, n_ in zip(x, y))
            tg = rec[1]; L = d - 1
            mag = (f['kp'] * dotabs(pv[0], pv[0]) + f['kv'] * dotabs(pv[1], pv[1]) + f['ka'] * dotabs(pv[2], pv[2]) + f['kj'] * dotabs(pv[3], pv[3])
                   + f['ks'] * dotabs(pv[4], pv[4]) + f['kx'] * (dotabs(pv[0], pv[1]) + abs(pv[2][0] * pv[4][L]) + abs(pv[3][0] * pv[0][L]))
                   + f['kt'] * (abs(tg * pv[0][0]) + tg * tg) + f['ki'] * (i + 1) * abs(pv[1][0] * pv[2][L]))
            tot += w * (Ts[i] / K) * mag
    if c.rho > 0:
        for i in range(n):
            for j in range(d):
                tot += Fr(c.rho) * energy_exact([co[i][p][j] for p in range(nc)], Ts[i], s)
    return float(tot)


def c19(chk):
    rng = chk.rng
    groups, plan = [], []
    k = 0
    ncase = 36 if not chk.thorough() else 240
    for q in range(ncase):
        order = (3, 5, 7)[q % 3]
        d = rng.choice([1, 2, 3]); n = rng.choice([1, 2, 3, 4])
        c = ol.rand_case(rng, order, d, n, k=800 + q % 90, steps=rng.choice([2, 4, 8]), rho=rng.choice([0.0, 0.0, 2.0 ** -12]))
        if abs(c.t0) > 1e8:
            c.t0 = 0.0          # finite differences of a cost in global time need a well-scaled start time (the stated domain of C19)
        # well-scaled costs: the finite-difference noise (about 1e-13 * |cost terms| / eps) must stay well below the tolerance 1e-4
        sp = ol.rand_spec(rng, zero_some=False)
        for f_ in ('ta', 'tb', 'tc', 'ww', 'wu', 'kp', 'kv'):
            sp[f_] *= 0.25
        sp['kj'] *= 2.0 ** -10; sp['ks'] *= 2.0 ** -16 if order == 7 else 2.0 ** -12; sp['ka'] *= 2.0 ** -6; sp['kx'] *= 2.0 ** -8; sp['ki'] *= 2.0 ** -6
        c.spec = sp
        c.h = [gen.dyadic(rng, 1.0, 2.0, 2) for _ in range(n)]
        c.P = [[v / 4 for v in r] for r in c.P]
        c.bc = [[v / 4 for v in b] for b in c.bc]
        c.x = ol.rand_x(rng, c)
        if c.tmType == 0:
            for i in range(n):
                c.x[i] = gen.dyadic(rng, -0.25, 1.0, 3)
        rid = f'g{q}'
        g = c.setup_lines(rid, 'Q')
        ws = rng.choice([-1, 4000 + q])
        variants = [('correct', 0, 0, 0.0)]
        vars_, doff, total = c.layout()
        variants.append(('time', 1, rng.randrange(n), rng.choice([0.01, -0.5])))
        if sp['useWp'] and vars_:
            variants.append(('waypoint', 2, rng.choice(vars_)[0], rng.choice([0.01, 0.5])))
        variants.append(('running_gp', 3, 0, rng.choice([0.05, -1.0])))
        variants.append(('running_gv', 4, 0, rng.choice([0.05, 1.0])))
        variants = [v + (1e-6, 1e-4) for v in variants]
        # caller-chosen tolerances with an error between the chosen and the default tolerance, and the defaulted-argument forms
        tsmall = rng.randrange(n)
        variants.append(('tol1e-6', 1, tsmall, rng.choice([3e-5, -2e-5]), 1e-6, 1e-6))
        variants.append(('tol1e-2', 1, tsmall, rng.choice([1e-3, -2e-3]), 1e-6, 1e-2))
        variants.append(('defaults', 1, tsmall, rng.choice([0.0, 0.01]), -1.0, -1.0))
        variants.append(('default-tol', 0, 0, 0.0, 1e-6, -1.0))
        for (name, pk, pi, pdel, eps_, tol_) in variants:
            c2 = copy.copy(c); c2.spec = dict(sp, pertKind=pk, pertIdx=pi, pertDelta=pdel)
            g.append(f'{rid}.{name} Q opt_check {c.slot} {ws} {len(c.x)} {hxs(c.x)} {c2.spec_tokens("Q")} {hx(eps_)} {hx(tol_)}')
            g.append(c2.eval_line(f'{rid}.{name}.ref', 'X', ws=5000 + q, rec=1))
            plan.append((f'{rid}.{name}', name, c2, ws, tol_ if tol_ > 0 else 1e-4))
        groups.append(g)
    cpp, _ = run_cpp(groups)
    # model runs only the loop logic on the correct functor (exact central differences) for a subset
    sub = [[l for l in g if ('.correct ' in l or l.split()[2] != 'opt_check') and l.split()[1] != 'X'] for g in groups[:12 if not chk.thorough() else 60]]
    mq = run_groups_model(sub)
    chk.evaluations += len(plan)
    for rid, name, c, ws, tol_used in plan:
        a = cpp[rid]
        cells(chk, c, name, 'ext-ws' if ws >= 0 else 'int-ws')
        valid = int(a['valid'][0])
        an, nu = fv(a['analytical']), fv(a['numerical'])
        ref = cpp[rid + '.ref']
        # both vectors and norms returned
        if len(an) != len(c.x) or len(nu) != len(c.x):
            chk.violation('gradient self-check does not return both gradient vectors', c.describe()); continue
        if a['analytical'] != ref['grad']:
            chk.violation('the analytical vector of the self-check is not the gradient evaluate() writes for the same decision vector', c.describe())
        en = float(parse_val(a['errnorm'][0]))
        diff = math.sqrt(sum(float(x - y) ** 2 for x, y in zip(an, nu)))
        if abs(en - diff) > 1e-9 * max(1.0, diff):
            chk.violation('reported error norm is not the norm of (analytical - numerical)', c.describe(), {'reported': en, 'recomputed': diff})
        if valid != (1 if en < tol_used else 0):
            chk.violation('verdict is not (error norm < tolerance)', c.describe(), {'valid': valid, 'error_norm': en, 'tolerance': tol_used})
        # state restored: the workspace's spline is the one defined by the checked decision vector
        if a.get('coeffs') != ref.get('coeffs'):
            chk.violation('the self-check leaves the workspace spline different from the one defined by the checked decision vector', c.describe(),
                          {'workspace': 'external' if ws >= 0 else 'built-in'})
        # verdict: success for correct functors, failure for a wrong component (perturbation >> tolerance)
        if name == 'correct' and not valid:
            tabs = abs_cost_terms(c, ref)
            noise = 1e-13 * tabs * math.sqrt(len(c.x)) / 1e-6
            if noise < 1e-4 / 3:
                chk.violation('self-check rejects correct user gradients of a well-scaled cost', c.describe(), {'error_norm': en, 'sum_abs_cost_terms': tabs})
            else:
                chk.count('correct_but_rejected_cost_not_well_scaled(fd noise above tolerance; outside the stated domain)')
        if name in ('time', 'waypoint', 'running_gp', 'running_gv') and valid:
            # a wrong component can only be noticed if it reaches the assembled gradient (e.g. a wrong position gradient of the
            # running cost has no effect at all on a one-segment spline between fixed endpoints at rest: the sampled positions do
            # not depend on the only decision variable). Its effect is the difference to the analytic vector of the correct functor.
            base = cpp.get(rid.rsplit('.', 1)[0] + '.correct')
            eff = math.sqrt(sum(float(x - y) ** 2 for x, y in zip(an, fv(base['analytical'])))) if base and 'analytical' in base else None
            if eff is not None and eff < 3 * tol_used:
                chk.count('perturbed component does not reach the gradient (effect below tolerance): nothing to detect')
                continue
            chk.violation(f'self-check accepts a user functor whose {name} gradient component is wrong by more than the tolerance', c.describe(),
                          {'error_norm': en, 'perturbation': c.spec['pertDelta']})
        if name == 'correct' and rid in mq:
            m = mq[rid]
            ok, err = vec_close(nu, fv(m['numerical']), 1e-4, floor=Fr(1))
            chk.disc('fd_vs_exact_fd', err)
            if not ok:
                chk.mismatch('numerical gradient differs from the exact central difference of the model cost', c.describe(), {'scaled_error': err})
    chk.sample(plan[0][2].describe())
