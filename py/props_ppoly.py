"""Checks of the piecewise-polynomial container: C03 (routes), C11 (caches/copies), C16 (ppoly part), C20 (helpers)."""
import math, copy, struct
from fractions import Fraction as Fr
import gen, runner, build
from proto import hx, hxs, parse_val
from splinelib import peval, ulp
import props_spline as ps


def harness():
    return build.build_harness('asan', ('ppoly',))


def nextafter(x, up):
    return math.nextafter(x, math.inf if up else -math.inf)


class PP:
    """python-side mirror of what was last pushed into a slot (for the exact oracle)"""
    def __init__(self, d, fo, bps, rows, nc):
        self.d, self.fo, self.bps, self.rows, self.nc = d, fo, bps, rows, nc
        self.nseg = len(bps) - 1 if len(bps) >= 2 else 0
        self.ok = (len(bps) >= 2 and len(rows) == (len(bps) - 1) * nc and (fo < 0 or (0 < nc <= fo)))
        if not self.ok:
            self.nseg = 0; self.nc_eff = 0
        else:
            self.nc_eff = nc

    def seg_of(self, t):
        """index of the piece whose half-open interval contains t (clamped)"""
        b = self.bps
        if t < b[0]:
            return 0
        if t >= b[-1]:
            return self.nseg - 1
        i = 0
        while not (b[i] <= t < b[i + 1]):
            i += 1
        return i

    def exact(self, i, dt, k):
        """k-th derivative of piece i at local time dt (Fraction), per dimension"""
        out = []
        for j in range(self.d):
            c = [Fr(self.rows[i * self.nc + p][j]) for p in range(self.nc)]
            out.append(peval(c, dt, k) if 0 <= k < self.nc else Fr(0))
        return out

    def cond(self, i, dt, k):
        """magnitude scale of the Horner evaluation: sum |falling * c_p| |dt|^(p-k)"""
        from splinelib import falling
        m = Fr(0)
        for j in range(self.d):
            for p in range(max(k, 0), self.nc):
                m = max(m, abs(falling(p, k) * Fr(self.rows[i * self.nc + p][j])) * abs(Fr(dt)) ** (p - k))
        return max(m, Fr(1, 10 ** 300))


def init_line(rid, slot, ctor, pp, mode='Q'):
    data = ' '.join(hxs(r) for r in pp.rows)
    return f'{rid} {mode} pp_init {slot} {ctor} {pp.d} {pp.fo} {len(pp.bps)} {hxs(pp.bps)} {pp.nc} {len(pp.rows)} {data}'.rstrip()


def rand_pp(rng, d, fo, nseg, nc, t0=None, big=False):
    t0 = t0 if t0 is not None else rng.choice([0.0, -3.5, gen.real(rng, -100, 100, 0.5, 2)])
    bps = [t0]
    for _ in range(nseg):
        bps.append(bps[-1] + gen.real(rng, 0.05, 3.0, 0.6, 5))
    rows = [[gen.real(rng, -4, 4, 0.7, 3) for _ in range(d)] for _ in range(nseg * nc)]
    return PP(d, fo, bps, rows, nc)


def vtoks(rep, key='v'):
    return rep.get(key)


def fv(tokens):
    return [parse_val(t) for t in tokens]


# ----------------------------------------------------------------------------------------------- C03
def c03(chk):
    rng = chk.rng
    lines, plan = [], []
    rid = [0]

    def emit(line_body, kind, info):
        lines.append(f'{rid[0]} Q {line_body}')
        plan.append((kind, info))
        rid[0] += 1

    segs_list = [1, 2, 5, 31, 32, 33, 40]
    objs = []
    k_slot = 0
    for d in (1, 2, 3, 6):
        for fo in (-1, 4, 6, 8):
            ncs = ([1, 2, 5, 8, 9, 12] if fo < 0 else sorted(set([1, fo // 2, fo])))
            if not chk.thorough():
                ncs = rng.sample(ncs, min(len(ncs), 3 if fo < 0 else 2))
                if fo < 0 and 9 not in ncs and 12 not in ncs:
                    ncs[-1] = rng.choice([9, 12])      # always cross the static-table limit
            for nc in ncs:
                for nseg in (segs_list if chk.thorough() else rng.sample(segs_list, 3) + ([32] if (d, fo) == (1, -1) else [])):
                    pp = rand_pp(rng, d, fo, nseg, nc)
                    slot = d * 1000 + k_slot; k_slot = (k_slot + 1) % 400
                    dslot = d * 1000 + 400 + (k_slot % 400)
                    objs.append((slot, pp))
                    # how the object comes to hold `pp`: constructed / updated over other, already evaluated data /
                    # assigned from another object onto other, already evaluated data (its lazy caches are then hot)
                    prep = rng.choice(['ctor', 'ctor', 'update', 'assign'])
                    chk.count(f'prepared by {prep}')
                    if prep == 'ctor':
                        lines.append(init_line(rid[0], slot, 1, pp)); plan.append(('init', (slot, pp))); rid[0] += 1
                    else:
                        nc0 = rng.choice([1, 2, 5, 9]) if fo < 0 else rng.randint(1, fo)
                        pp0 = rand_pp(rng, d, fo, rng.choice([1, 2, 3, nseg]), rng.choice([nc0, nc]))
                        lines.append(init_line(rid[0], slot, 1, pp0)); plan.append(('init', (slot, pp0))); rid[0] += 1
                        for _ in range(2):
                            t0_ = rng.uniform(pp0.bps[0], pp0.bps[-1]); k0_ = rng.randrange(0, pp0.nc)
                            emit(f'pp_eval {slot} {hx(t0_)} {k0_}', 'eval', (slot, pp0, t0_, k0_))
                        if prep == 'update':
                            lines.append(init_line(rid[0], slot, 0, pp)); plan.append(('init', (slot, pp))); rid[0] += 1
                        else:
                            tmp = d * 1000 + 900 + (k_slot % 90)
                            lines.append(init_line(rid[0], tmp, 1, pp)); plan.append(('init', (tmp, pp))); rid[0] += 1
                            lines.append(f'{rid[0]} Q pp_assign {tmp} {slot}'); plan.append(('init', (slot, pp))); rid[0] += 1
                    # times
                    b = pp.bps
                    ts = []
                    pick = sorted(set([0, 1, len(b) // 2, len(b) - 2, len(b) - 1]) & set(range(len(b))))
                    for i in pick:
                        ts += [b[i], nextafter(b[i], True), nextafter(b[i], False)]
                    for i in rng.sample(range(nseg), min(nseg, 3)):
                        ts.append((b[i] + b[i + 1]) / 2)
                    ts += [b[0] - 7.25, b[-1] + 1e3, b[0] - 1e9]
                    ks = sorted(set([0, 1, nc - 1, nc, nc + 1]) | set(rng.sample(range(nc + 2), min(nc + 2, 2))))
                    hint = rng.choice([-5, 0, nseg - 1, nseg, nseg + 7])
                    for t in ts:
                        for k in ks:
                            i = pp.seg_of(t)
                            emit(f'pp_eval {slot} {hx(t)} {k}', 'eval', (slot, pp, t, k))
                            hint_in = rng.choice([hint, i, i - 1, i + 1, rng.randint(-3, nseg + 3)])
                            emit(f'pp_evalh {slot} {hx(t)} {k} {hint_in}', 'evalh', (slot, pp, t, k, hint_in))
                            dt = t - b[i]
                            via = rng.randrange(3)
                            emit(f'pp_seg {slot} {i} {hx(dt)} {k} {via}', 'seg', (slot, pp, t, k, i, dt))
                    # hinted sweeps: monotone forward, backward, random jumps (hint carried by the generator = true index chain)
                    sweep = sorted(rng.uniform(b[0] - 0.5, b[-1] + 0.5) for _ in range(8))
                    for order_ in (sweep, sweep[::-1], rng.sample(sweep, len(sweep))):
                        h = rng.choice([-1, 0, nseg + 2])
                        for t in order_:
                            k = rng.choice([0, 1, max(nc - 1, 0)])
                            emit(f'pp_evalh {slot} {hx(t)} {k} {h}', 'evalh', (slot, pp, t, k, h))
                            if k < nc:
                                h = pp.seg_of(t)       # what the hint must now be; a wrong hint shows in the reply
                    # batch
                    kb = rng.choice(ks)
                    emit(f'pp_batch {slot} {kb} {len(ts)} {hxs(ts)}', 'batch', (slot, pp, ts, kb))
                    # derivative trajectory
                    for kd in sorted(set([1, max(nc - 1, 1), nc, nc + 2])):
                        lines.append(f'{rid[0]} Q pp_deriv {slot} {kd} {dslot}'); plan.append(('deriv', (slot, pp, kd))); rid[0] += 1
                        for t in rng.sample(ts, 4):
                            emit(f'pp_eval {dslot} {hx(t)} 0', 'deval', (slot, pp, t, kd))
    cpp, _ = runner.run_harness(harness(), lines)
    mod = runner.run_model(lines)
    chk.evaluations += len(lines)
    last_eval = {}
    for q, (kind, info) in enumerate(plan):
        a, m = cpp[str(q)], mod[str(q)]
        if kind in ('init', 'deriv'):
            if a.get('info') and m.get('info') and a['info'][:3] != m['info'][:3]:
                chk.mismatch('construction verdict differs from the model', {'info_impl': a.get('info'), 'info_model': m.get('info')})
            continue
        pp = info[1]
        chk.count(kind)
        ncls = 'lin' if pp.nseg < 32 else 'bin'
        chk.cell(pp.d, pp.fo, 'nc>8' if pp.nc > 8 else 'nc<=8', ncls, kind)
        if kind == 'batch':
            slot, pp, ts, k = info
            va, vm = fv(a['v']), fv(m['v'])
            for idx, t in enumerate(ts):
                i = pp.seg_of(t)
                check_value(chk, pp, t, k, va[idx * pp.d:(idx + 1) * pp.d], vm[idx * pp.d:(idx + 1) * pp.d], 'batch')
                key = (slot, t, k)
                if key in last_eval and last_eval[key] != a['v'][idx * pp.d:(idx + 1) * pp.d]:
                    chk.violation('batch evaluation differs bit-for-bit from pointwise evaluation', descr(pp, t, k))
            continue
        if kind == 'deval':
            slot, pp, t, kd = info
            va, vm = fv(a['v']), fv(m['v'])
            check_value(chk, pp, t, kd, va, vm, 'derivative-trajectory')
            key = (slot, t, kd)
            if key in last_eval and last_eval[key] != a['v']:
                chk.violation('evaluation of the derivative trajectory differs bit-for-bit from direct evaluation', descr(pp, t, kd))
            continue
        slot, pp, t, k = info[:4]
        if 'throw' in a or 'throw' in m:
            if ('throw' in a) != ('throw' in m):
                chk.mismatch('checked segment access: throw verdict differs from the model', descr(pp, t, k))
            continue
        va, vm = fv(a['v']), fv(m['v'])
        check_value(chk, pp, t, k, va, vm, kind)
        if kind == 'eval':
            last_eval[(slot, t, k)] = a['v']
            if 'venum' in a and a['venum'] != a['v']:
                chk.violation('Deriv-enum overload differs from the integer-order overload', descr(pp, t, k))
        else:
            key = (slot, t, k)
            if key in last_eval and last_eval[key] != a['v']:
                chk.violation(f'{kind} route differs bit-for-bit from plain evaluation', descr(pp, t, k), {'hint_in': info[4] if kind == 'evalh' else None})
        if kind == 'evalh':
            hin = info[4]
            hout, hmod = int(a['hint'][0]), int(m['hint'][0])
            want = pp.seg_of(t) if 0 <= k < pp.nc else hin
            if k < 0:
                want = hout          # negative orders are outside the statement
            if hout != hmod:
                chk.mismatch('hint after the call differs from the model', descr(pp, t, k), {'hint_in': hin, 'impl': hout, 'model': hmod})
            if hout != want:
                chk.violation('a hinted call does not leave the hint equal to the index of the piece used',
                              descr(pp, t, k), {'hint_in': hin, 'hint_out': hout, 'piece': want})
    chk.sample({'object': {'dim': objs[0][1].d, 'order_param': objs[0][1].fo, 'segments': objs[0][1].nseg, 'num_coeffs': objs[0][1].nc},
                'requests': lines[1:4]})


def descr(pp, t, k):
    return {'dim': pp.d, 'order_param': pp.fo, 'segments': pp.nseg, 'num_coeffs': pp.nc, 't': t, 't_hex': hx(t), 'k': k,
            'breakpoints': pp.bps if len(pp.bps) <= 8 else pp.bps[:4] + ['…'] + pp.bps[-3:]}


def check_value(chk, pp, t, k, va, vm, route):
    """implementation value vs exact value of the k-th derivative of the right piece at the local time the code forms"""
    if not pp.ok:
        return
    i = pp.seg_of(t)
    dt = t - pp.bps[i]                      # the double the code computes
    ex = pp.exact(i, Fr(dt), k)
    sc = pp.cond(i, Fr(dt), k) if 0 <= k < pp.nc else Fr(1)
    for j in range(pp.d):
        if isinstance(va[j], float):
            chk.violation(f'{route}: non-finite value', descr(pp, t, k)); return
        err = abs(va[j] - ex[j]) / sc
        chk.disc(f'{route}/value', err)
        if err > 1e-12 * (pp.nc + 1):
            chk.violation(f'{route}: value is not the k-th derivative of the piece containing t', descr(pp, t, k),
                          {'got': float(va[j]), 'exact': float(ex[j]), 'piece': i})
            return
    # model (exact rationals, exact local time) agrees up to the rounding of t - b_i
    # (skipped when |dt| is huge: the model's exact dt and the rounded dt are then different inputs to a high power)


# ----------------------------------------------------------------------------------------------- C11
def len_across_updates(chk):
    """arc-length queries on a reused object: query, update to other data over the *same* time span (same first and last
    breakpoint, other interior knots / segment count / coefficients), the same query again (same arguments, both overload
    routes go through it) - against a fresh object holding the new data, bit for bit (C++ against C++)"""
    rng = chk.rng
    lines, plan = [], []
    rid = 0
    for rep in range(12 if not chk.thorough() else 80):
        d = rng.choice([1, 2, 3]); fo = rng.choice([-1, 4, 6, 8])
        nc = rng.choice([2, 3, 4, 6]) if fo < 0 else rng.randint(2, fo)
        s_re = d * 1000 + 800 + (rep % 40) * 2       # (the request is routed by slot // 1000 = dimension)
        s_fr = s_re + 1
        pp = rand_pp(rng, d, fo, rng.choice([1, 2, 3, 5]), nc)
        a, b = pp.bps[0], pp.bps[-1]
        dt = rng.choice([0.01, 0.0625, (b - a) / 37])
        lines.append(init_line(rid, s_re, 1, pp, 'F')); plan.append(('init', None)); rid += 1
        first = True
        for step in range(rng.randint(2, 4)):
            lines.append(f'{rid} F pp_len {s_re} {hx(a)} {hx(b)} {hx(dt)}'); plan.append(('len_reused', (rep, step))); rid += 1
            if not first:
                lines.append(init_line(rid, s_fr, 1, pp, 'F')); plan.append(('init', None)); rid += 1
                lines.append(f'{rid} F pp_len {s_fr} {hx(a)} {hx(b)} {hx(dt)}'); plan.append(('len_fresh', (rep, step))); rid += 1
            first = False
            # next data over the same span
            nseg = rng.choice([1, 2, 3, 5])
            cuts = sorted(rng.uniform(a, b) for _ in range(nseg - 1))
            bps = [a] + cuts + [b]
            if any(y - x < 1e-3 for x, y in zip(bps, bps[1:])):
                bps = [a + (b - a) * q / nseg for q in range(nseg)] + [b]
            nc2 = nc if fo >= 0 and rng.random() < 0.5 else (rng.choice([2, 3, 4, 6]) if fo < 0 else rng.randint(2, fo))
            rows = [[gen.real(rng, -4, 4, 0.7, 3) for _ in range(d)] for _ in range(nseg * nc2)]
            pp = PP(d, fo, bps, rows, nc2)
            lines.append(init_line(rid, s_re, rng.choice([0, 0, 1]), pp, 'F')); plan.append(('init', None)); rid += 1
        lines.append(f'{rid} F pp_len {s_re} {hx(a)} {hx(b)} {hx(dt)}'); plan.append(('len_reused', (rep, 99))); rid += 1
        lines.append(init_line(rid, s_fr, 1, pp, 'F')); plan.append(('init', None)); rid += 1
        lines.append(f'{rid} F pp_len {s_fr} {hx(a)} {hx(b)} {hx(dt)}'); plan.append(('len_fresh', (rep, 99))); rid += 1
    cpp, _ = runner.run_harness(harness(), lines)
    chk.evaluations += len(lines)
    got = {}
    for q, (kind, key) in enumerate(plan):
        if kind.startswith('len'):
            got[(kind, key)] = (cpp[str(q)].get('len'), lines[q])
    bad = 0
    for (kind, key), (val, line) in got.items():
        if kind != 'len_fresh':
            continue
        chk.count('arc length re-queried with the same arguments after an update over the same time span')
        re_val = got.get(('len_reused', key), (None, ''))[0]
        if val is None or re_val is None:
            chk.mismatch('arc-length request not answered by the harness', {'request': line[:200]}); continue
        if re_val != val and bad < 5:
            bad += 1
            chk.violation('arc length of a reused object differs from a fresh object holding the same data (same query before the update)',
                          {'request': line[:300]}, {'reused': str(re_val), 'fresh': str(val)})


def c11(chk):
    len_across_updates(chk)
    rng = chk.rng
    nhist = 40 if not chk.thorough() else 300
    lines, plan = [], []
    mirror = {}
    rid = 0
    for hno in range(nhist):
        d = rng.choice([1, 2, 3, 6])
        fo = rng.choice([-1, -1, 4, 6, 8])
        base = d * 1000 + (hno % 50) * 10
        slots = [base + q for q in range(4)]

        def fresh_pp():
            nc = rng.choice([1, 2, 3, 4, 6, 9, 12]) if fo < 0 else rng.randint(1, fo)
            return rand_pp(rng, d, fo, rng.choice([1, 2, 3, 4, 6]), nc)

        pp = fresh_pp()
        mirror[slots[0]] = pp
        lines.append(init_line(rid, slots[0], 1, pp)); plan.append(('init', slots[0], None)); rid += 1
        live = [slots[0]]
        for _ in range(rng.randint(8, 20)):
            op = rng.choice(['eval', 'eval', 'evalh', 'update', 'update_reseg', 'update_same', 'deriv', 'copy', 'assign', 'update_bad'])
            s = rng.choice(live)
            cur = mirror[s]
            if op in ('eval', 'evalh'):
                if not cur.ok:
                    continue
                t = rng.uniform(cur.bps[0] - 0.3, cur.bps[-1] + 0.3)
                k = rng.randrange(0, cur.nc + 2)
                if op == 'eval':
                    lines.append(f'{rid} Q pp_eval {s} {hx(t)} {k}')
                else:
                    lines.append(f'{rid} Q pp_evalh {s} {hx(t)} {k} {rng.randint(-2, cur.nseg + 2)}')
                plan.append((op, s, (t, k))); rid += 1
            elif op.startswith('update'):
                if op == 'update':
                    npp = fresh_pp()
                elif op == 'update_same' and cur.ok:
                    npp = PP(d, fo, [x + 0.5 for x in cur.bps], cur.rows, cur.nc)       # pure re-timing
                elif op == 'update_reseg' and cur.ok:
                    # identical coefficient values, different segmentation (rows = nseg*nc refactored)
                    total = len(cur.rows)
                    opts = [(total // n2, n2) for n2 in range(1, 13) if total % n2 == 0 and (fo < 0 or n2 <= fo) and n2 != cur.nc]
                    if not opts:
                        continue
                    ns2, nc2 = rng.choice(opts)
                    bps = [cur.bps[0]]
                    for _ in range(ns2):
                        bps.append(bps[-1] + gen.real(rng, 0.1, 2.0, 0.6, 4))
                    npp = PP(d, fo, bps, cur.rows, nc2)
                elif op == 'update_bad':
                    kind = rng.randrange(3)
                    g = fresh_pp()
                    if kind == 0:
                        npp = PP(d, fo, g.bps[:1], g.rows, g.nc)
                    elif kind == 1:
                        npp = PP(d, fo, g.bps, g.rows[:-1], g.nc)
                    else:
                        npp = PP(d, fo, g.bps, g.rows, g.nc) if fo < 0 else PP(d, fo, g.bps[:2], g.rows[:1] * (fo + 1), fo + 1)
                else:
                    npp = fresh_pp()
                # updates that keep the coefficient values (re-timing, re-segmentation) or the breakpoints hand the object its own
                # members back half of the time (codes 2/3/4: the arguments alias the members), and a coefficient-only update
                how = 0
                if cur.ok and npp.ok and rng.random() < 0.5:
                    how = rng.choice([2, 3, 4])
                if op == 'update' and cur.ok and rng.random() < 0.3:
                    g2 = fresh_pp()
                    if len(g2.rows) == 0 or g2.nc <= 0:
                        pass
                    else:
                        # same breakpoints, new coefficient values (possibly another coefficient count): rows = nseg * nc'
                        nc2 = g2.nc
                        rows2 = [[gen.real(rng, -4, 4, 0.7, 3) for _ in range(d)] for _ in range(cur.nseg * nc2)]
                        npp = PP(d, fo, list(cur.bps), rows2, nc2)
                        how = rng.choice([0, 3, 3])
                mirror[s] = npp
                lines.append(init_line(rid, s, how, npp)); plan.append(('init', s, None)); rid += 1
                if how:
                    chk.count('update with aliasing arguments (own members)')
                    if npp.ok:
                        for _ in range(2):
                            t = rng.uniform(npp.bps[0], npp.bps[-1]); k = rng.randrange(0, npp.nc)
                            lines.append(f'{rid} Q pp_eval {s} {hx(t)} {k}'); plan.append(('probe', s, (t, k, copy.deepcopy(npp)))); rid += 1
            elif op == 'deriv':
                if not cur.ok:
                    continue
                k = rng.randrange(1, cur.nc + 1)
                tgt = rng.choice(slots)
                if tgt == s:
                    continue
                lines.append(f'{rid} Q pp_deriv {s} {k} {tgt}'); plan.append(('deriv', tgt, None)); rid += 1
                mirror[tgt] = derive_pp(cur, k)
                if tgt not in live:
                    live.append(tgt)
            else:
                tgt = rng.choice(slots)
                if tgt == s:
                    continue
                # half of the copies / assignments go onto a *hot* object: one whose lazy caches were just filled by an
                # evaluation of its old data, and the target is evaluated again right afterwards
                hot = tgt in live and mirror[tgt].ok and rng.random() < 0.6
                if hot:
                    old = mirror[tgt]
                    t = rng.uniform(old.bps[0], old.bps[-1]); k = rng.randrange(0, old.nc)
                    lines.append(f'{rid} Q pp_eval {tgt} {hx(t)} {k}'); plan.append(('probe', tgt, (t, k, copy.deepcopy(old)))); rid += 1
                lines.append(f'{rid} Q pp_{op} {s} {tgt}'); plan.append((op, tgt, None)); rid += 1
                mirror[tgt] = copy.deepcopy(cur)
                if tgt not in live:
                    live.append(tgt)
                if hot and cur.ok:
                    chk.count(f'{op} onto a hot object')
                    for _ in range(2):
                        t = rng.uniform(cur.bps[0], cur.bps[-1]); k = rng.randrange(0, cur.nc)
                        lines.append(f'{rid} Q pp_eval {tgt} {hx(t)} {k}'); plan.append(('probe', tgt, (t, k, copy.deepcopy(cur)))); rid += 1
        # closing probe of every live object: a few evaluations at several orders
        for s in live:
            cur = mirror[s]
            if not cur.ok:
                lines.append(f'{rid} Q pp_info {s}'); plan.append(('info', s, None)); rid += 1
                continue
            for _ in range(3):
                t = rng.uniform(cur.bps[0], cur.bps[-1])
                k = rng.randrange(0, cur.nc)
                lines.append(f'{rid} Q pp_eval {s} {hx(t)} {k}'); plan.append(('probe', s, (t, k, copy.deepcopy(cur)))); rid += 1
    # long runs of updates without any evaluation in between (a cache-validity stamp that is a small counter wraps around):
    # evaluate, update 256 / 512 / 65536+ times, evaluate; and construct, update 255 times, evaluate for the first time
    for fo, d in ((-1, 2), (4, 1)):
        for runlen, first_eval in ((256, True), (512, True), (255, False), (257, True)) + (((65536, True),) if chk.thorough() else ()):
            slot = d * 1000 + 700 + (runlen % 97)
            pp = rand_pp(rng, d, fo, 2, 3)
            lines.append(init_line(rid, slot, 1, pp)); plan.append(('init', slot, None)); rid += 1
            if first_eval:
                t = rng.uniform(pp.bps[0], pp.bps[-1])
                lines.append(f'{rid} Q pp_eval {slot} {hx(t)} 1'); plan.append(('probe', slot, (t, 1, copy.deepcopy(pp)))); rid += 1
            for u in range(runlen):
                pp = rand_pp(rng, d, fo, 2, 3) if u % 64 == 0 or u == runlen - 1 else PP(d, fo, [x + 0.25 for x in pp.bps], pp.rows, pp.nc)
                lines.append(init_line(rid, slot, 0, pp)); plan.append(('init', slot, None)); rid += 1
            chk.count(f'run of {runlen} updates without evaluation')
            for _ in range(2):
                t = rng.uniform(pp.bps[0], pp.bps[-1]); k = rng.randrange(0, pp.nc)
                lines.append(f'{rid} Q pp_eval {slot} {hx(t)} {k}'); plan.append(('probe', slot, (t, k, copy.deepcopy(pp)))); rid += 1
    cpp, _ = runner.run_harness(harness(), lines)
    mod = runner.run_model(lines)
    chk.evaluations += len(lines)
    for q, (kind, s, info) in enumerate(plan):
        a, m = cpp[str(q)], mod[str(q)]
        chk.count(kind)
        chk.cell(kind, s // 1000)
        if 'info' in a or 'info' in m:
            if a.get('info', [None] * 3)[:3] != m.get('info', [None] * 3)[:3]:
                chk.mismatch(f'{kind}: object state (initialised / segments / coefficients) differs from the model',
                             {'request': lines[q][:200], 'impl': a.get('info'), 'model': m.get('info')})
            continue
        if 'v' in a and 'v' in m:
            va, vm = fv(a['v']), fv(m['v'])
            if any(isinstance(x, float) for x in va):
                chk.violation('evaluation returned a non-finite value after this history', {'request': lines[q][:200]}); continue
            sc = max(Fr(1), max(abs(x) for x in vm))
            err = max(abs(x - y) for x, y in zip(va, vm)) / sc
            chk.disc('history/value', err)
            if err > 1e-9:
                # decide with the exact oracle on the data of the last update of this object
                if kind == 'probe':
                    t, k, pp = info
                    i = pp.seg_of(t)
                    ex = pp.exact(i, Fr(t - pp.bps[i]), k)
                    if max(abs(x - y) for x, y in zip(va, ex)) / sc > 1e-9:
                        chk.violation('evaluation after an update/copy history does not reflect the latest data (stale cache or shared state)',
                                      {'history_tail': [l[:160] for l in lines[max(0, q - 12):q + 1]], 't': t, 'k': k},
                                      {'got': [float(x) for x in va], 'exact': [float(x) for x in ex]})
                        continue
                chk.mismatch('evaluation differs from the model after this history', {'request': lines[q][:200],
                             'history_tail': [l[:160] for l in lines[max(0, q - 12):q]]}, {'impl': [float(x) for x in va], 'model': [float(x) for x in vm]})
            if 'hint' in a and a['hint'] != m.get('hint'):
                chk.mismatch('hint differs from the model after this history', {'request': lines[q][:200]})
    # spline objects: the exposed trajectory reflects the latest update even when it was evaluated before
    ps.c10_splines(_Sub(chk, 'spline trajectory after update'))
    chk.sample({'history': [l[:120] for l in lines[:6]]})


class _Sub:
    """forward everything to the parent check (used to share a routine between properties)"""
    def __init__(self, chk, tag):
        self.__dict__['chk'] = chk
    def __getattr__(self, k): return getattr(self.__dict__['chk'], k)
    def __setattr__(self, k, v): setattr(self.__dict__['chk'], k, v)


def derive_pp(pp, k):
    from splinelib import falling
    if k >= pp.nc:
        return PP(pp.d, pp.fo, pp.bps, [[0.0] * pp.d for _ in range(pp.nseg)], 1)
    no = pp.nc - k
    rows = []
    for sgi in range(pp.nseg):
        for p in range(no):
            rows.append([falling(p + k, k) * x for x in pp.rows[sgi * pp.nc + p + k]])
    return PP(pp.d, pp.fo, pp.bps, rows, no)


# ----------------------------------------------------------------------------------------------- C16 (ppoly part)
def c16_ppoly(chk):
    rng = chk.rng
    lines, plan = [], []
    rid = 0
    for d in (1, 3):
        for fo in (-1, 4, 8):
            slot = d * 1000 + 900 + (0 if fo < 0 else fo)
            for rep in range(6 if not chk.thorough() else 30):
                g = rand_pp(rng, d, fo, rng.choice([1, 2, 4]), rng.choice([1, 3, 4]) if fo < 0 else rng.randint(1, fo))
                variants = [('valid', g),
                            ('no breakpoints', PP(d, fo, [], [], g.nc)),
                            ('one breakpoint', PP(d, fo, g.bps[:1], g.rows, g.nc)),
                            ('row count short', PP(d, fo, g.bps, g.rows[:-1], g.nc)),
                            ('row count long', PP(d, fo, g.bps, g.rows + [g.rows[0]], g.nc)),
                            ('nc zero', PP(d, fo, g.bps, [], 0))]
                if fo > 0:
                    variants.append(('more coefficients than the fixed order', PP(d, fo, g.bps[:2], [g.rows[0]] * (fo + 1), fo + 1)))
                    variants.append(('negative nc', PP(d, fo, g.bps, [], -1)))
                rng.shuffle(variants)
                for name, pp in variants:
                    ctor = rng.randrange(2)
                    lines.append(init_line(rid, slot, ctor, pp)); plan.append(('init', name, pp)); rid += 1
                    for idx in (-1, 0, pp.nseg - 1, pp.nseg, pp.nseg + 3):
                        lines.append(f'{rid} Q pp_seg {slot} {idx} {hx(0.0)} 0 1'); plan.append(('at', name, (pp, idx))); rid += 1
    cpp, _ = runner.run_harness(harness(), lines)
    mod = runner.run_model(lines)
    chk.evaluations += len(lines)
    for q, (kind, name, info) in enumerate(plan):
        a, m = cpp[str(q)], mod[str(q)]
        chk.count(f'ppoly:{name}')
        chk.cell('ppoly', kind, name)
        if kind == 'init':
            pp = info
            ia = a['info']
            if a['info'][:3] != m['info'][:3]:
                chk.mismatch('piecewise-polynomial initialisation verdict differs from the model', {'variant': name}, {'impl': a['info'], 'model': m['info']})
            want = [1, pp.nseg, pp.nc] if pp.ok else [0, 0, 0]
            if [int(x) for x in ia[:3]] != want:
                chk.violation('piecewise polynomial: wrong initialisation verdict', {'variant': name, 'breakpoints': len(pp.bps), 'rows': len(pp.rows),
                              'nc': pp.nc, 'fixed_order': pp.fo}, {'got': ia[:3], 'want': want})
        else:
            pp, idx = info
            thrown = 'throw' in a
            if thrown != ('throw' in m):
                chk.mismatch('checked segment access verdict differs from the model', {'variant': name, 'index': idx})
            if thrown != (not (0 <= idx < pp.nseg)):
                chk.violation('checked segment access: throws exactly outside the valid range is violated',
                              {'variant': name, 'index': idx, 'segments': pp.nseg}, {'threw': thrown})


# ----------------------------------------------------------------------------------------------- C20
def c20(chk):
    rng = chk.rng
    lines, plan = [], []
    rid = 0
    nseq = 400 if not chk.thorough() else 6000
    for _ in range(nseq):
        mode = rng.randrange(6)
        start = rng.choice([0.0, gen.real(rng, -1e3, 1e3, 0.5, 4), gen.real(rng, -1e6, 1e6, 0.3, 0)])
        if mode == 0:       # dt nearly divides the interval
            q = rng.randint(1, 400)
            dt = rng.choice([0.01, 0.1, 0.25, 1 / 3, rng.uniform(1e-3, 2.0)])
            length = q * dt
            for _ in range(rng.randint(0, 3)):
                length = nextafter(length, rng.random() < 0.5)
            end = start + length
        elif mode == 1:     # dt larger than the interval
            end = start + rng.uniform(0.0, 1.0); dt = (end - start) * rng.uniform(1.0, 5.0) + 1e-3
        elif mode == 2:     # zero length
            end = start; dt = rng.choice([0.01, 1.0])
        elif mode == 3:     # dt equal to the interval
            dt = rng.choice([0.5, 0.3, 1.7]); end = start + dt
        elif mode == 4:     # remainder just below / above the 1e-6 threshold
            q = rng.randint(1, 50); dt = rng.choice([0.1, 0.5, 1.0, 2.5, 4.0, 8.0])
            if rng.random() < 0.5:
                start = rng.choice([0.0, -3.0, 12.5, 100.0])     # exactly representable: the remainder is not blurred by rounding
            end = start + q * dt + rng.choice([0.5e-6, 0.99e-6, 1.01e-6, 2e-6, -0.5e-6, -1.5e-6,
                                               -0.9e-6 * dt, -2e-6 * dt, 0.9e-6 * dt, -0.5e-6 * dt])
        else:
            end = start + rng.uniform(0.01, 20.0); dt = rng.uniform(1e-3, 3.0)
        if not (end >= start) or abs(start) > 1e6:
            continue
        lines.append(f'{rid} F pp_seq {hx(start)} {hx(end)} {hx(dt)}'); plan.append(('seq', (start, end, dt, mode))); rid += 1
    # trajectory length and batch on real trajectories; factories
    objs = []
    for d in (1, 2, 3):
        for fo in (-1, 4, 8):
            pp = rand_pp(rng, d, fo, rng.choice([1, 3, 6, 12]), 4 if fo != 8 else 6)
            if rng.random() < 0.6 and pp.nseg >= 3:
                # many short segments: a single step then crosses two or more breakpoints
                bps = [pp.bps[0]]
                for _ in range(pp.nseg):
                    bps.append(bps[-1] + gen.real(rng, 0.05, 0.4, 0.6, 5))
                pp = PP(pp.d, pp.fo, bps, pp.rows, pp.nc)
            slot = d * 1000 + 700 + (0 if fo < 0 else fo)
            lines.append(init_line(rid, slot, 1, pp, 'F')); plan.append(('init', None)); rid += 1
            for _ in range(10 if not chk.thorough() else 40):
                a = rng.uniform(pp.bps[0], pp.bps[-1]); b = rng.uniform(a, pp.bps[-1])
                if rng.random() < 0.4:
                    a, b = pp.bps[0], pp.bps[-1]
                span = pp.bps[-1] - pp.bps[0]
                dt = rng.choice([0.01, 0.05, 0.37, 0.5, 1.3, 5.0, span / 3.3, span / 2.2, span / 5.7])
                lines.append(f'{rid} F pp_len {slot} {hx(a)} {hx(b)} {hx(dt)}'); plan.append(('len', (pp, slot, a, b, dt))); rid += 1
            # batch evaluation over the generated sequence = pointwise evaluation, at orders below, at and above the number of
            # coefficients (the derivative is then identically zero)
            for _ in range(3 if not chk.thorough() else 10):
                a = rng.uniform(pp.bps[0], pp.bps[-1]); b = rng.uniform(a, pp.bps[-1])
                span = max(b - a, 1e-3)
                ts = py_time_sequence(a, b, span / rng.choice([3.3, 7.0, 16.5]))[:40]
                for k in (0, 1, pp.nc - 1, pp.nc, pp.nc + 2):
                    lines.append(f'{rid} F pp_batch {slot} {k} {len(ts)} {hxs(ts)}'); plan.append(('batch', (pp, ts, k))); rid += 1
            # factories
            zs = d * 1000 + 800 + (0 if fo < 0 else fo)
            nb = rng.choice([0, 1, 2, 5])
            bps = sorted(rng.uniform(-5, 5) for _ in range(nb))
            ncz = rng.choice([1, 2, 4, 9]) if fo < 0 else rng.choice([1, fo, fo + 1])
            lines.append(f'{rid} F pp_zero {zs} {d} {fo} {nb} {hxs(bps)} {ncz}'.replace('  ', ' ')); plan.append(('zero', (d, fo, bps, ncz))); rid += 1
            for t in ([bps[0] - 1, bps[0], (bps[0] + bps[-1]) / 2, bps[-1] + 2] if nb >= 2 else []):
                for k in (0, 1, ncz):
                    lines.append(f'{rid} F pp_eval {zs} {hx(t)} {k}'); plan.append(('zeroeval', (d, fo, bps, ncz))); rid += 1
            cv = [gen.real(rng, -9, 9, 0.5, 3) for _ in range(d)]
            cs = zs + 50
            lines.append(f'{rid} F pp_const {cs} {d} {fo} {nb} {hxs(bps)} {hxs(cv)}'.replace('  ', ' ')); plan.append(('const', (d, fo, bps, cv))); rid += 1
            for t in ([bps[0] - 1, bps[0], (bps[0] + bps[-1]) / 2, bps[-1] + 2] if nb >= 2 else []):
                for k in (0, 1, 2):
                    lines.append(f'{rid} F pp_eval {cs} {hx(t)} {k}'); plan.append(('consteval', (d, fo, bps, cv, k))); rid += 1
            if nb >= 2:
                tsf = [bps[0] - 1, bps[0], (bps[0] + bps[-1]) / 2, bps[-1], bps[-1] + 2] * 4
                for k in (0, 1, 3):
                    lines.append(f'{rid} F pp_batch {cs} {k} {len(tsf)} {hxs(tsf)}'); plan.append(('constbatch', (d, cv, tsf, k))); rid += 1
                    if fo < 0 or ncz <= fo:
                        lines.append(f'{rid} F pp_batch {zs} {k} {len(tsf)} {hxs(tsf)}'); plan.append(('constbatch', (d, [0.0] * d, tsf, k))); rid += 1
    cpp, _ = runner.run_harness(harness(), lines)
    mod = runner.run_model(lines)
    chk.evaluations += len(lines)
    for q, (kind, info) in enumerate(plan):
        a, m = cpp[str(q)], mod[str(q)]
        chk.count(kind)
        if kind == 'seq':
            start, end, dt, mode = info
            chk.cell('seq', mode, 'big' if abs(start) > 1e3 else 'small')
            seq = [float(parse_val(t)) for t in a['seq']]
            if a['seq'] != m['seq']:
                chk.mismatch('generated time sequence differs from the IEEE-double instance of the model (same operations)',
                             {'start': start, 'end': end, 'dt': dt}, {'impl_len': len(a['seq']), 'model_len': len(m['seq'])})
            problems = seq_contract(seq, start, end, dt)
            if problems:
                chk.violation('time sequence violates its contract: ' + problems[0], {'start': start, 'end': end, 'dt': dt,
                              'start_hex': hx(start), 'end_hex': hx(end), 'dt_hex': hx(dt)}, {'sequence_tail': seq[-3:], 'n': len(seq)})
        elif kind == 'len':
            pp, slot, aa, bb, dt = info
            chk.cell('len', pp.d, pp.fo)
            la = float(parse_val(a['len'][0])); lm = float(parse_val(m['len'][0]))
            # left-endpoint Riemann sum recomputed from the exact velocity of the trajectory
            seq = py_time_sequence(aa, bb, dt)
            tot = 0.0
            for i in range(len(seq) - 1):
                sgi = pp.seg_of(seq[i])
                v = pp.exact(sgi, Fr(seq[i] - pp.bps[sgi]), 1)
                tot += math.sqrt(float(sum(x * x for x in v))) * (seq[i + 1] - seq[i])
            if abs(la - tot) > 1e-9 * max(1.0, abs(tot)):
                chk.violation('trajectory length is not the left-endpoint Riemann sum of speed over the generated time sequence',
                              {'dim': pp.d, 'segments': pp.nseg, 'a': aa, 'b': bb, 'dt': dt, 'breakpoints': pp.bps}, {'got': la, 'riemann': tot})
            if abs(la - lm) > 1e-9 * max(1.0, abs(lm)):
                chk.mismatch('trajectory length differs from the model', {'a': aa, 'b': bb, 'dt': dt}, {'impl': la, 'model': lm})
        elif kind in ('zero', 'const'):
            d, fo, bps = info[0], info[1], info[2]
            nc = info[3] if kind == 'zero' else 1
            chk.cell(kind, d, fo, len(bps))
            ok = len(bps) >= 2 and (fo < 0 or 0 < nc <= fo)
            if a['info'][:3] != m['info'][:3]:
                chk.mismatch(f'{kind} factory: object state differs from the model', {'breakpoints': len(bps), 'nc': nc, 'fixed_order': fo},
                             {'impl': a['info'], 'model': m['info']})
            got = [int(x) for x in a['info'][:3]]
            want = [1, len(bps) - 1, nc] if ok else [0, 0, 0]
            if got != want:
                chk.violation(f'{kind} factory is not initialised on the given breakpoints', {'breakpoints': bps, 'nc': nc, 'fixed_order': fo},
                              {'got': got, 'want': want})
        elif kind == 'batch':
            pp, ts, k = info
            chk.cell('batch', pp.d, pp.fo, 'k>=nc' if k >= pp.nc else 'k<nc')
            va = [parse_val(t) for t in a['v']]
            for idx, t in enumerate(ts):
                sgi = pp.seg_of(t)
                ex = pp.exact(sgi, Fr(t - pp.bps[sgi]), k) if 0 <= k < pp.nc else [Fr(0)] * pp.d
                sc = pp.cond(sgi, Fr(t - pp.bps[sgi]), k) if 0 <= k < pp.nc else Fr(1)
                row = va[idx * pp.d:(idx + 1) * pp.d]
                if any(isinstance(x, float) for x in row) or any(abs(Fr(x) - e) > 1e-12 * (pp.nc + 1) * sc for x, e in zip(row, ex)):
                    chk.violation('batch evaluation over the generated time sequence is not the pointwise value of that derivative',
                                  {'dim': pp.d, 'segments': pp.nseg, 'num_coeffs': pp.nc, 'k': k, 't': t}, {'got': [float(x) for x in row], 'exact': [float(e) for e in ex]})
                    break
        elif kind == 'constbatch':
            d, cv, tsf, k = info
            v = [float(parse_val(t)) for t in a['v']]
            want = (list(cv) if k == 0 else [0.0] * d) * len(tsf)
            if v != want:
                chk.violation('batch evaluation of a factory trajectory is not the constant / zero at every sample', {'k': k, 'constant': cv},
                              {'first_values': v[:2 * d]})
        elif kind in ('zeroeval', 'consteval'):
            v = [float(parse_val(t)) for t in a['v']]
            if kind == 'zeroeval':
                d, fo, bps, ncz = info
                if (fo < 0 or ncz <= fo) and any(x != 0.0 for x in v):
                    chk.violation('zero factory trajectory evaluates to a non-zero value', {'breakpoints': bps}, {'value': v})
            else:
                d, fo, bps, cv, k = info
                want = cv if k == 0 else [0.0] * d
                if v != want:
                    chk.violation('constant factory trajectory does not evaluate to the constant (derivatives zero)', {'breakpoints': bps, 'k': k},
                                  {'value': v, 'want': want})
    chk.sample({'requests': lines[:3]})


def py_time_sequence(start, end, dt):
    n = math.floor((end - start) / dt)
    seq = [start + i * dt for i in range(n + 1)]
    if not seq or abs(seq[-1] - end) > 1e-6:
        seq.append(end)
    return seq


def seq_contract(seq, start, end, dt):
    """the contract of the statement, independent of how the code counts steps"""
    p = []
    if not seq:
        return ['empty sequence']
    if seq[0] != start:
        p.append('does not start exactly at the requested start')
    for i in range(len(seq) - 1):
        if not (seq[i + 1] > seq[i]):
            p.append(f'not strictly increasing at index {i}'); break
    for i, x in enumerate(seq):
        if x > end + 1e-6:
            p.append(f'sample {i} lies beyond the end by more than 1e-6'); break
    if abs(seq[-1] - end) > 1e-6:
        p.append('does not end within 1e-6 of the requested end')
    # shape: regular samples start + i*dt for i = 0..m, optionally followed by the appended end
    def regular(m):
        return all(seq[i] == start + i * dt for i in range(m + 1))
    n = len(seq)
    if regular(n - 1) and abs(seq[-1] - end) <= 1e-6:
        pass                                    # ends on a regular sample close enough to the end
    elif n >= 2 and regular(n - 2) and seq[-1] == end:
        last = seq[-2]
        if abs(last - end) <= 1e-6:
            p.append('end appended although the last step is already within 1e-6 of it')
        if end - last > dt * (1 + 1e-9) + 1e-6:
            p.append('stops stepping early: the gap to the appended end exceeds one step')
    elif n == 1 and seq[0] == end:
        pass
    else:
        bad = next((i for i in range(n) if seq[i] != start + i * dt), n - 1)
        p.append(f'sample {bad} is not start + i*dt (and is not the appended end)')
    return p
