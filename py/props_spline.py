"""Checks of the spline-object properties: C01 C02 C04 C05 C06 C10 C13 C14 C18."""
import math, copy
from fractions import Fraction as Fr
import gen, runner, build
from proto import hx, hxs, dual, parse_val
from splinelib import *

TOL = {3: 1e-9, 5: 1e-8, 7: 1e-6}
ALL_KEYS = ['coeffs', 'cum', 'energy', 'pgc', 'pgt', 'egt', 'egi', 'egb', 'prop_inner', 'prop_times', 'prop_b', 'ev']


def harness(parts=('spline',)):
    return build.build_harness('asan', parts)


def run_both(cases, mode='Q', shards=16):
    lines = [c.line(i, mode) for i, c in enumerate(cases)]
    cpp, _ = runner.run_harness(harness(), lines)
    mod = runner.run_model_sharded(lines, shards)
    return cpp, mod


def fvals(tokens):
    return [re_part(parse_val(t)) for t in tokens]


def block_scale(vs):
    m = max((abs(x) for x in vs), default=0)
    return max(Fr(1), m)


def grouped(key, vs, case):
    """split a reply into blocks that share a scale"""
    nc = NC[case.order]
    if key in ('coeffs', 'pgc'):
        d = case.d
        return [[vs[(i * nc + k) * d + j] for i in range(case.n) for j in range(d)] for k in range(nc)]
    if key in ('egb', 'prop_b'):
        d = case.d
        return [vs[b * d:(b + 1) * d] for b in range(8)]
    return [vs]


def compare(chk, case, a, b, keys, tol=None, label='model'):
    """C++ reply `a` against exact reply `b` on the listed keys; records mismatches. Returns worst rel. discrepancy."""
    tol = tol or TOL[case.order]
    worst = 0.0
    for key in keys:
        if key not in b and key not in a:
            continue
        if key not in a or key not in b:
            chk.mismatch(f'{label}: reply key {key} missing on one side', case.describe())
            continue
        lists_a = a.get(key + '*', [a[key]])
        lists_b = b.get(key + '*', [b[key]])
        if len(lists_a) != len(lists_b):
            chk.mismatch(f'{label}: {key} count differs', case.describe())
            continue
        for ta, tb in zip(lists_a, lists_b):
            va, vb = fvals(ta), fvals(tb)
            if len(va) != len(vb):
                chk.mismatch(f'{label}: {key} has {len(va)} values, expected {len(vb)}', case.describe())
                continue
            for ga, gb in zip(grouped(key, va, case), grouped(key, vb, case)):
                if not gb:
                    continue
                if any(isinstance(x, float) for x in ga):      # NaN / Inf from the implementation
                    chk.mismatch(f'{label}: {key} contains a non-finite value', case.describe(),
                                 {'key': key, 'cpp': [str(x) for x in ga][:8]})
                    continue
                sc = block_scale(gb)
                err = max(abs(x - y) for x, y in zip(ga, gb)) / sc
                worst = max(worst, float(err))
                chk.disc(f'{case.order}/{key}', err)
                if err > tol:
                    idx = max(range(len(ga)), key=lambda i: abs(ga[i] - gb[i]))
                    chk.mismatch(f'{label}: {key} differs (scaled error {float(err):.3e} > {tol:g})', case.describe(),
                                 {'key': key, 'index_in_block': idx, 'cpp': float(ga[idx]), 'exact': float(gb[idx])})
    return worst


def struct_cells(chk, c, extra=()):
    ncls = c.n if c.n <= 4 else ('5-12' if c.n <= 12 else '13+')
    dcls = '1' if c.d == 1 else ('2-3' if c.d <= 3 else '4-10')
    chk.cell(c.order, ncls, dcls, c.mode, *extra)
    chk.count(f'order{c.order}')
    chk.count(f'N={ncls}')
    chk.count(f'D={dcls}')
    chk.count(f'mode={c.mode}')


def std_cases(chk, with_grad, n_list=None, d_list=None, reps=1, short=0.8, gkinds=(None,), ratio=None):
    rng = chk.rng
    n_list = n_list or ([1, 2, 3, 4, 5, 8] if not chk.thorough() else [1, 2, 3, 4, 5, 6, 8, 10, 12, 16, 24, 40])
    d_list = d_list or ([1, 2, 3, 4, 7] if not chk.thorough() else list(range(1, 11)))
    cases = []
    for order in (3, 5, 7):
        for n in n_list:
            for d in d_list:
                for _ in range(reps):
                    for gk in gkinds:
                        c = gen.spline_case(rng, order, d, n, with_grad=with_grad, short=short if n <= 12 else 1.0,
                                            gkind=gk, ratio=ratio)
                        cases.append(c)
    return cases


# ----------------------------------------------------------------------------------------------- C01
def c01(chk):
    cases = std_cases(chk, with_grad=False, reps=2 if not chk.thorough() else 4)
    # consecutive problems of one structure land on the same persistent object: half of them keep the previous duration
    # vector bit-for-bit and change only the start time and the data (a "durations unchanged" shortcut must still move the
    # knot times), a quarter keep the start time and the data and change only the durations
    rng = chk.rng
    for prev, c in zip(cases, cases[1:]):
        if (prev.order, prev.d, prev.n) != (c.order, c.d, c.n):
            continue
        u = rng.random()
        if u < 0.5:
            c.h = list(prev.h)
            c.t0 = prev.t0 + rng.choice([0.5, -2.0, 3.25, 64.0])
            c.mode = rng.choice([prev.mode, c.mode])
            chk.count('same durations, new start time')
        elif u < 0.75:
            c.t0 = prev.t0; c.P = copy.deepcopy(prev.P); c.bc = copy.deepcopy(prev.bc)
            chk.count('same data, new durations')
    # every case also in the other time mode, fresh object and reused object (update overloads)
    twins = []
    for c in cases:
        t = copy.deepcopy(c)
        t.mode = 'tp' if c.mode == 'dur' else 'dur'
        t.slot = 7          # update overloads on one persistent object per (order, D)
        twins.append(t)
    # evaluation at every knot through the published trajectory
    allc = cases + twins
    for c in allc:
        cum = [c.t0]
        for x in c.h:
            cum.append(cum[-1] + x)
        c.evals = [(cum[i], m) for i in range(len(cum)) for m in range(S_OF[c.order])]
    cpp, mod = run_both(allc)
    chk.evaluations += len(allc)
    for i, c in enumerate(allc):
        struct_cells(chk, c, ('reuse' if c.slot >= 0 else 'fresh',))
        a, b = cpp[str(i)], mod[str(i)]
        # `ev` is compared with the exact model only when the knot times are exactly representable: otherwise the
        # implementation's rounded breakpoints and the model's exact ones are different inputs to the lookup
        keys = ['coeffs', 'cum'] + (['ev'] if exact_times(c) else [])
        chk.count('ev_compared_exact_knots' if len(keys) == 3 else 'ev_skipped_inexact_knots')
        compare(chk, c, a, b, keys)
        c01_oracle(chk, c, a)
    # duration form and time-point form give the same trajectory
    half = len(cases)
    for i, c in enumerate(cases):
        if not (exact_times(c) and exact_times(allc[i + half])):
            chk.count('dur_vs_tp_skipped_inexact_time_points')     # rounded time points are a different input
            continue
        chk.count('dur_vs_tp_compared')
        a, b = cpp[str(i)], cpp[str(i + half)]
        ca, cb = fvals(a['coeffs']), fvals(b['coeffs'])
        for ga, gb in zip(grouped('coeffs', ca, c), grouped('coeffs', cb, c)):
            err = max(abs(x - y) for x, y in zip(ga, gb)) / block_scale(ga)
            chk.disc(f'{c.order}/dur-vs-tp', err)
            if err > TOL[c.order]:
                chk.violation('duration form and time-point form give different trajectories', c.describe(),
                              {'scaled_error': float(err)})
    # very long trajectories (beyond any block size of a blocked summation or re-anchoring scheme inside the time bookkeeping):
    # the oracle on the implementation's own output needs no model
    longc = []
    for order in (3, 5, 7):
        for n in ([1030] if not chk.thorough() else [513, 1025, 1537, 2100]):
            c = gen.spline_case(rng, order, rng.choice([1, 2]), n, with_grad=False, short=1.0)
            c.mode = 'dur'
            cum = [c.t0]
            for x in c.h:
                cum.append(cum[-1] + x)
            c.evals = [(cum[i], m) for i in range(len(cum)) for m in range(S_OF[c.order])]
            longc.append(c)
            chk.count('very long trajectory (oracle only)')
    cppl = runner.run_harness(harness(), [c.line(i, 'Q') for i, c in enumerate(longc)])[0]
    chk.evaluations += len(longc)
    for i, c in enumerate(longc):
        c01_oracle(chk, c, cppl[str(i)])
    chk.sample(allc[0].describe())
    chk.sample(allc[-1].describe())


def exact_times(c):
    ts = c.times_tokens()
    if c.mode == 'tp':
        return all(Fr(ts[i + 1]) - Fr(ts[i]) == Fr(ts[i + 1] - ts[i]) for i in range(c.n))
    acc, accf = Fr(c.t0), c.t0
    for x in c.h:
        acc += Fr(x); accf += x
        if Fr(accf) != acc:
            return False
    return True


def c01_oracle(chk, c, rep):
    """interpolation from both sides, boundary states, bookkeeping: on the implementation's own output"""
    tol = TOL[c.order]
    s = S_OF[c.order]
    nc = NC[c.order]
    co = coeff_table(rep['coeffs'], c.n, nc, c.d)
    h = [Fr(x) for x in c.h] if c.mode == 'dur' else None
    tps = None
    if c.mode == 'tp':
        tps = c.times_tokens()
        h = [Fr(tps[i + 1] - tps[i]) for i in range(c.n)]          # the doubles the code computes
    P = fr_rows(c.P)
    S = max(Fr(1), max(abs(x) for r in P for x in r))
    hmax = max(h)
    for m in range(1, s):
        for blk in (c.bc[m - 1], c.bc[m + 2]):
            for x in blk:
                S = max(S, abs(Fr(x)) * hmax ** m)
    for i in range(c.n):
        for j in range(c.d):
            cj = [co[i][k][j] for k in range(nc)]
            if any(isinstance(x, float) for x in cj):
                chk.violation('coefficients are not finite', c.describe(), {'segment': i})
                return
            l = peval(cj, 0) - P[i][j]
            r = peval(cj, h[i]) - P[i + 1][j]
            chk.disc(f'{c.order}/interp', max(abs(l), abs(r)) / S)
            if abs(l) > tol * S or abs(r) > tol * S:
                chk.violation(f'waypoint not interpolated (segment {i}, dim {j})', c.describe(),
                              {'left_residual': float(l), 'right_residual': float(r), 'equation_class': 'interpolation'})
    for m in range(1, s):
        for j in range(c.d):
            c0 = [co[0][k][j] for k in range(nc)]
            cl = [co[c.n - 1][k][j] for k in range(nc)]
            e0 = (peval(c0, 0, m) - Fr(c.bc[m - 1][j])) * h[0] ** m
            e1 = (peval(cl, h[-1], m) - Fr(c.bc[m + 2][j])) * h[-1] ** m
            chk.disc(f'{c.order}/boundary', max(abs(e0), abs(e1)) / S)
            if abs(e0) > tol * S or abs(e1) > tol * S:
                chk.violation(f'boundary derivative {m} not honoured (dim {j})', c.describe(),
                              {'start_residual': float(e0), 'end_residual': float(e1), 'equation_class': 'boundary'})
    # bookkeeping
    cum = [float(x) for x in fvals(rep['cum'])]
    g = rep['getters']
    start, end, dur = (float(parse_val(g[k])) for k in range(3))
    nseg, npts = int(g[3]), int(g[4])
    t0 = c.t0 if c.mode == 'dur' else tps[0]
    exp = [t0]
    hd = [float(x) for x in h]
    for x in hd:
        exp.append(exp[-1] + x)
    ok = (len(cum) == c.n + 1 and cum == exp and start == t0 and end == cum[-1] and dur == cum[-1] - t0
          and nseg == c.n and npts == c.n + 1)
    if ok and c.mode == 'tp':
        mag = max(abs(x) for x in tps) + 1e-300
        ok = all(abs(a - b) <= 4 * math.ulp(mag) for a, b in zip(cum, tps))
    if not ok:
        chk.violation('start/end/duration/segment count/knot times disagree with the inputs', c.describe(),
                      {'cum': cum, 'expected': exp, 'getters': [start, end, dur, nseg, npts]})
    # evaluation at knot i through the published trajectory is the right limit = waypoint i (last knot: last piece)
    evs = rep.get('ev*', [rep['ev']] if 'ev' in rep else [])
    q = 0
    for i in range(c.n + 1):
        for m in range(s):
            v = fvals(evs[q]); q += 1
            if m == 0:
                # the last knot is answered by the last piece at local time t_n - t_{n-1}, a difference of *rounded* absolute knot
                # times: it differs from the duration by up to ulp(t_n), which moves the value by |velocity| * ulp(t_n)
                slack = Fr(0)
                if i == c.n and c.n >= 1:
                    co_ = coeff_table(rep['coeffs'], c.n, NC[c.order], c.d)
                    hl = Fr(hd[-1])
                    vmax = max((abs(peval([co_[c.n - 1][k][j] for k in range(NC[c.order])], hl * qq / 4, 1))
                                for j in range(c.d) for qq in range(5)
                                if not any(isinstance(co_[c.n - 1][k][j], float) for k in range(NC[c.order]))), default=Fr(0))
                    slack = 4 * vmax * Fr(math.ulp(max(abs(x) for x in cum) + 1e-300))
                for j in range(c.d):
                    if any(isinstance(x, float) for x in v) or abs(v[j] - P[i][j]) > tol * S + slack:
                        chk.violation(f'trajectory evaluated at knot {i} is not waypoint {i}', c.describe(),
                                      {'value': float(v[j]) if not isinstance(v[j], float) else str(v[j]), 'waypoint': float(P[i][j])})


# ----------------------------------------------------------------------------------------------- C02
def c02(chk):
    nl = list(range(1, 11)) if not chk.thorough() else list(range(1, 17))
    dl = [1, 2, 3] if not chk.thorough() else [1, 2, 3, 5, 10]
    cases = std_cases(chk, with_grad=False, n_list=nl, d_list=dl)
    for c in cases:
        c.mode = 'dur'
        c.t0 = 0.0
    # the property bounds the duration *ratio*, not the unit: a third of the problems are rescaled in time by a power of two
    # (milliseconds … hours); an absolute threshold anywhere in the solver shows here
    for c in cases[1::3]:
        f = 2.0 ** chk.rng.choice([-10, -7, -4, 5, 8, 11, 13, 17, 20, 24])
        c.h = [x * f for x in c.h]
        chk.count('rescaled in time')
    # long splines (N beyond any block size or unrolling width): the continuity oracle on the published coefficients needs no model
    nmodel = len(cases)
    for order in (3, 5, 7):
        for n in ([65, 130] if not chk.thorough() else [63, 64, 65, 127, 128, 129, 257]):
            c = gen.spline_case(chk.rng, order, chk.rng.choice([1, 2, 3]), n, with_grad=False, short=1.0)
            c.mode = 'dur'; c.t0 = 0.0
            cases.append(c)
    cpp = runner.run_harness(harness(), [c.line(i, 'Q') for i, c in enumerate(cases)])[0]
    mod = runner.run_model_sharded([c.line(i, 'Q') for i, c in enumerate(cases[:nmodel])], 16)
    chk.evaluations += len(cases)
    dense_budget = 40 if not chk.thorough() else 200
    for i, c in enumerate(cases):
        struct_cells(chk, c)
        a = cpp[str(i)]
        if i >= nmodel:
            c02_jumps(chk, c, a)
            c18_interp(chk, c, a)
            continue
        b = mod[str(i)]
        compare(chk, c, a, b, ['coeffs'])
        c02_jumps(chk, c, a)
        # independent dense solve of the optimality conditions (definition, not the code's reduced system)
        if dense_budget > 0 and c.n * NC[c.order] <= 64 and c.d <= 3:
            dense_budget -= 1
            chk.count('dense_solves')
            ref = dense_minimiser(c.order, [Fr(x) for x in c.h], fr_rows(c.P), fr_rows(c.bc))
            mc = coeff_table(b['coeffs'], c.n, NC[c.order], c.d)
            cc = coeff_table(a['coeffs'], c.n, NC[c.order], c.d)
            if mc != ref:
                chk.mismatch('model (exact rationals) differs from the independent dense solve of the optimality conditions',
                             c.describe())
            for k in range(NC[c.order]):
                ga = [cc[s][k][j] for s in range(c.n) for j in range(c.d)]
                gb = [ref[s][k][j] for s in range(c.n) for j in range(c.d)]
                if any(isinstance(x, float) for x in ga):
                    chk.violation('coefficients are not finite', c.describe()); break
                err = max(abs(x - y) for x, y in zip(ga, gb)) / block_scale(gb)
                chk.disc(f'{c.order}/dense', err)
                if err > TOL[c.order]:
                    chk.violation(f'published coefficients differ from the unique minimiser (dense solve), power {k}',
                                  c.describe(), {'scaled_error': float(err)})
    chk.sample(cases[0].describe())


def c02_jumps(chk, c, rep, thr=None, cls='continuity'):
    s = S_OF[c.order]
    nc = NC[c.order]
    tol = thr or TOL[c.order] * 10
    co = coeff_table(rep['coeffs'], c.n, nc, c.d)
    h = [Fr(x) for x in c.h]
    worst = 0.0
    for i in range(1, c.n):
        for j in range(c.d):
            cl = [co[i - 1][k][j] for k in range(nc)]
            cr = [co[i][k][j] for k in range(nc)]
            if any(isinstance(x, float) for x in cl + cr):
                chk.violation('coefficients are not finite', c.describe()); return 0
            for m in range(0, 2 * s - 1):
                L = peval(cl, h[i - 1], m)
                R = peval(cr, 0, m)
                # scale of derivative m near this knot: the larger one-sided magnitude over both pieces
                mags = [abs(peval(cl, h[i - 1] * q / 4, m)) for q in range(5)] + [abs(peval(cr, h[i] * q / 4, m)) for q in range(5)]
                hh = min(h[i - 1], h[i])
                sc = max(max(mags), Fr(1) / hh ** m)
                rel = abs(L - R) / sc
                worst = max(worst, float(rel))
                chk.disc(f'{c.order}/jump', rel)
                if rel > tol:
                    chk.violation(f'derivative {m} jumps at interior knot {i} (dim {j})', c.describe(),
                                  {'relative_jump': float(rel), 'equation_class': f'{cls}{m}', 'derivative': m,
                                   'ratio': float(max(c.h) / min(c.h))})
    return worst


# ----------------------------------------------------------------------------------------------- C04
def c04(chk):
    cases = std_cases(chk, with_grad=False, reps=1 if not chk.thorough() else 3)
    # durations of any scale: widen half of them
    for c in cases[::2]:
        f = 2.0 ** chk.rng.randint(-6, 6)
        c.h = [x * f for x in c.h]
    # long trajectories (beyond any block size / unrolling width inside the energy loops); the oracle below needs no model
    nbig = len(cases)
    for order in (3, 5, 7):
        for n in ([65, 130, 520, 1030] if not chk.thorough() else [63, 64, 65, 127, 128, 129, 200, 257, 513, 1025, 1537, 2100]):
            cases.append(gen.spline_case(chk.rng, order, chk.rng.choice([1, 2, 3]) if n < 500 else 1, n, with_grad=False, short=1.0))
    cpp = runner.run_harness(harness(), [c.line(i, 'Q') for i, c in enumerate(cases)])[0]
    mod = runner.run_model_sharded([c.line(i, 'Q') for i, c in enumerate(cases[:nbig])], 16)
    chk.evaluations += len(cases)
    for i, c in enumerate(cases):
        struct_cells(chk, c)
        a = cpp[str(i)]
        if i < nbig:
            compare(chk, c, a, mod[str(i)], ['energy'], tol=1e-9)
        # oracle: exact integral of the squared s-th derivative of the *published* coefficients
        s = S_OF[c.order]
        nc = NC[c.order]
        co = coeff_table(a['coeffs'], c.n, nc, c.d)
        h = [Fr(x) for x in (c.h if c.mode == 'dur' else [c.times_tokens()[k + 1] - c.times_tokens()[k] for k in range(c.n)])]
        per_dim = []
        bad = False
        for j in range(c.d):
            e = Fr(0)
            for sg in range(c.n):
                cj = [co[sg][k][j] for k in range(nc)]
                if any(isinstance(x, float) for x in cj):
                    bad = True; break
                e += energy_exact(cj, h[sg], s)
            per_dim.append(e)
        if bad:
            chk.violation('coefficients are not finite', c.describe()); continue
        tot = sum(per_dim)
        en = fvals(a['energy'])[0]
        if isinstance(en, float):
            chk.violation('energy is not finite', c.describe()); continue
        rel = abs(en - tot) / max(Fr(1), tot)
        chk.disc(f'{c.order}/energy_vs_integral', rel)
        if rel > 1e-9:
            chk.violation('reported energy is not the integral of the squared s-th derivative of the published trajectory',
                          c.describe(), {'energy': float(en), 'integral': float(tot)})
        if en < -1e-9 * max(Fr(1), tot):
            chk.violation('energy negative', c.describe(), {'energy': float(en)})
    chk.sample(cases[0].describe())
    # arbitrary coefficient sets: energy of 1-segment problems spans every cross term independently of the solver
    # (N=1 splines have no interior system: their coefficients range over all Hermite data)


# ----------------------------------------------------------------------------------------------- C05 / C06 (dual-number oracle)
def dual_lines(case, rid_base):
    """one model request per input direction (tangent 1 in that input, 0 elsewhere) -> (lines, directions)"""
    dirs = []
    for i in range(case.n):
        dirs.append(('h', i, 0))
    for i in range(case.n + 1):
        for j in range(case.d):
            dirs.append(('P', i, j))
    nb = S_OF[case.order] - 1
    for b in list(range(nb)) + [3 + q for q in range(nb)]:
        for j in range(case.d):
            dirs.append(('bc', b, j))
    lines = []
    for q, (kind, i, j) in enumerate(dirs):
        def dn(x, on):
            return dual(x, 1.0 if on else 0.0)
        t = [f'{rid_base}.{q}', 'D', 'spline', '-1', '0', str(case.order), str(case.d), str(case.n), 'dur', dn(case.t0, False)]
        t += [dn(x, kind == 'h' and i == ii) for ii, x in enumerate(case.h)]
        for ii, r in enumerate(case.P):
            t += [dn(x, kind == 'P' and i == ii and j == jj) for jj, x in enumerate(r)]
        for bb, blk in enumerate(case.bc):
            t += [dn(x, kind == 'bc' and i == bb and j == jj) for jj, x in enumerate(blk)]
        t += ['0', '0']
        lines.append(' '.join(t))
    return lines, dirs


def exact_adjoint(case, dmod, rid_base, gC, gT):
    """J^T (gC, gT) from the dual-number model runs. -> dict direction -> Fraction"""
    out = {}
    lines, dirs = None, None
    q = 0
    res = {}
    _, dirs = dual_lines(case, rid_base)
    for q, dct in enumerate(dirs):
        rep = dmod[f'{rid_base}.{q}']
        cv = [parse_val(t) for t in rep['coeffs']]
        tot = Fr(0)
        nc = NC[case.order]
        for r in range(case.n * nc):
            for j in range(case.d):
                g = gC[r][j]
                if g != 0:
                    tot += Fr(g) * du_part(cv[r * case.d + j])
        if dct[0] == 'h':
            tot += Fr(gT[dct[1]])
        res[dct] = tot
    return res


def exact_energy_grad(case, dmod, rid_base):
    _, dirs = dual_lines(case, rid_base)
    return {dct: du_part(parse_val(dmod[f'{rid_base}.{q}']['energy'][0])) for q, dct in enumerate(dirs)}


def unpack_grads(case, inner, times, bvals):
    """reply blocks -> dict direction -> value"""
    d, n = case.d, case.n
    out = {}
    for i in range(n):
        out[('h', i, 0)] = times[i]
    for j in range(d):
        out[('P', 0, j)] = bvals[0 * d + j]
        out[('P', n, j)] = bvals[4 * d + j]
    for i in range(1, n):
        for j in range(d):
            out[('P', i, j)] = inner[(i - 1) * d + j]
    nb = S_OF[case.order] - 1
    for b in range(nb):
        for j in range(d):
            out[('bc', b, j)] = bvals[(1 + b) * d + j]
            out[('bc', 3 + b, j)] = bvals[(5 + b) * d + j]
    return out


def grad_compare(chk, case, got, exact, what, tol):
    """per block (durations / points / each boundary kind): relative to the norm of the exact block"""
    blocks = {}
    for k in exact:
        blocks.setdefault((k[0], k[1] if k[0] == 'bc' else 0), []).append(k)
    worst = 0.0
    for bk, keys in blocks.items():
        if any(isinstance(got[k], float) for k in keys):
            chk.violation(f'{what}: non-finite gradient', case.describe()); continue
        nrm = max(Fr(1), max(abs(exact[k]) for k in keys))
        err = max(abs(got[k] - exact[k]) for k in keys) / nrm
        worst = max(worst, float(err))
        chk.disc(f'{case.order}/{what}', err)
        if err > tol:
            kk = max(keys, key=lambda k: abs(got[k] - exact[k]))
            chk.violation(f'{what}: component {kk} is not the exact derivative', case.describe(),
                          {'got': float(got[kk]), 'exact': float(exact[kk]), 'scaled_error': float(err)})
    return worst


def c05(chk):
    nl = [1, 2, 3, 4, 6] if not chk.thorough() else [1, 2, 3, 4, 5, 6, 8, 10]
    dl = [1, 2, 3, 4, 5] if not chk.thorough() else [1, 2, 3, 4, 5, 7, 10]
    cases = []
    for gk in (['dense', 'sparse', 'unit', 'unitT'] if chk.thorough() else ['dense', 'unit']):
        cases += std_cases(chk, with_grad=True, n_list=nl, d_list=dl, gkinds=(gk,))
    for c in cases:
        c.mode = 'dur'
    cpp, mod = run_both(cases)
    # exact J^T g from dual-number runs
    dl_lines = []
    for i, c in enumerate(cases):
        dl_lines += dual_lines(c, i)[0]
    dmod = runner.run_model_sharded(dl_lines, 16)
    chk.evaluations += len(cases)
    chk.notes['dual_model_runs'] = len(dl_lines)
    tolf = {3: 1e-8, 5: 1e-7, 7: 1e-5}
    for i, c in enumerate(cases):
        struct_cells(chk, c, (c.meta.get('gkind'),))
        a, b = cpp[str(i)], mod[str(i)]
        compare(chk, c, a, b, ['prop_inner', 'prop_times', 'prop_b'], tol=tolf[c.order])
        ex = exact_adjoint(c, dmod, i, c.gC, c.gT)
        # the model's own propagateGrad must be the exact adjoint (exact rationals: equality)
        gm = unpack_grads(c, fvals(b['prop_inner']), fvals(b['prop_times']), fvals(b['prop_b']))
        if any(gm[k] != ex[k] for k in ex):
            chk.mismatch('model propagateGrad is not the exact transpose-Jacobian product of the model construction map', c.describe())
        gc = unpack_grads(c, fvals(a['prop_inner']), fvals(a['prop_times']), fvals(a['prop_b']))
        grad_compare(chk, c, gc, ex, 'propagateGrad', tolf[c.order])
    # linearity and independence of earlier calls, on the implementation alone
    c05_linearity(chk)
    chk.sample(cases[0].describe())


def c05_linearity(chk):
    rng = chk.rng
    cases = []
    for order in (3, 5, 7):
        for d in (1, 3, 4):
            for n in (1, 2, 4):
                c1 = gen.spline_case(rng, order, d, n, gkind='dense', mode='dur')
                c1.slot = 11
                c2 = copy.deepcopy(c1)
                c2.gC, c2.gT, _ = gen.upstream(rng, order, n, d, 'dense')
                c3 = copy.deepcopy(c1)
                c3.gC = [[2 * x - 3 * y for x, y in zip(r1, r2)] for r1, r2 in zip(c1.gC, c2.gC)]
                c3.gT = [2 * x - 3 * y for x, y in zip(c1.gT, c2.gT)]
                c4 = copy.deepcopy(c1)          # first request again after two other propagations
                cases += [c1, c2, c3, c4]
    lines = [c.line(i, 'X') for i, c in enumerate(cases)]
    cpp, _ = runner.run_harness(harness(), lines)
    chk.evaluations += len(cases)
    for q in range(0, len(cases), 4):
        r = [cpp[str(q + k)] for k in range(4)]
        c = cases[q]
        for key in ('prop_inner', 'prop_times', 'prop_b'):
            v = [fvals(x[key]) for x in r]
            if not v[0]:
                continue
            sc = block_scale(v[0] + v[1])
            lin = max(abs(2 * a - 3 * b - cc) for a, b, cc in zip(v[0], v[1], v[2])) / sc
            chk.disc(f'{c.order}/linearity', lin)
            if lin > 1e-9:
                chk.violation('propagateGrad is not linear in the upstream gradient', c.describe(), {'key': key, 'error': float(lin)})
            if r[0][key] != r[3][key]:
                chk.violation('propagateGrad depends on earlier propagation calls (not bit-identical when repeated)', c.describe(), {'key': key})


def c06(chk):
    nl = [1, 2, 3, 4, 6] if not chk.thorough() else [1, 2, 3, 4, 5, 6, 8, 10]
    dl = [1, 2, 3, 4] if not chk.thorough() else [1, 2, 3, 4, 5, 7, 10]
    cases = std_cases(chk, with_grad=False, n_list=nl, d_list=dl, reps=2)
    for c in cases:
        c.mode = 'dur'
    cpp, mod = run_both(cases)
    dl_lines = []
    for i, c in enumerate(cases):
        dl_lines += dual_lines(c, i)[0]
    dmod = runner.run_model_sharded(dl_lines, 16)
    chk.evaluations += len(cases)
    chk.notes['dual_model_runs'] = len(dl_lines)
    tolf = {3: 1e-8, 5: 1e-7, 7: 1e-5}
    second = []
    for i, c in enumerate(cases):
        struct_cells(chk, c)
        a, b = cpp[str(i)], mod[str(i)]
        compare(chk, c, a, b, ['pgc', 'pgt', 'egt', 'egi', 'egb'], tol=tolf[c.order])
        ex = exact_energy_grad(c, dmod, i)
        gc = unpack_grads(c, fvals(a['egi']), fvals(a['egt']), fvals(a['egb']))
        grad_compare(chk, c, gc, ex, 'energy gradient', tolf[c.order])
        gm = unpack_grads(c, fvals(b['egi']), fvals(b['egt']), fvals(b['egb']))
        if any(gm[k] != ex[k] for k in ex):
            chk.mismatch('model analytic energy gradient is not the exact derivative of the model energy', c.describe())
        # partial gradients: exact partial derivatives of the energy integral of the published coefficients
        s = S_OF[c.order]; nc = NC[c.order]
        co = coeff_table(a['coeffs'], c.n, nc, c.d)
        pgc = coeff_table(a['pgc'], c.n, nc, c.d)
        pgt = fvals(a['pgt'])
        h = [Fr(x) for x in c.h]
        for sg in range(c.n):
            acc = Fr(0)
            for j in range(c.d):
                cj = [co[sg][k][j] for k in range(nc)]
                exc = energy_partial_c(cj, h[sg], s)
                sc = max(Fr(1), max(abs(x) for x in exc))
                err = max(abs(pgc[sg][k][j] - exc[k]) for k in range(nc)) / sc
                chk.disc(f'{c.order}/partialC', err)
                if err > 1e-9:
                    chk.violation('partial gradient by coefficients is not the partial derivative of the energy integral',
                                  c.describe(), {'segment': sg, 'dim': j, 'scaled_error': float(err)})
                acc += peval(cj, h[sg], s) ** 2
            err = abs(pgt[sg] - acc) / max(Fr(1), acc)
            chk.disc(f'{c.order}/partialT', err)
            if err > 1e-9:
                chk.violation('partial gradient by durations is not the partial derivative of the energy integral',
                              c.describe(), {'segment': sg, 'got': float(pgt[sg]), 'exact': float(acc)})
        # propagating the partials must reproduce the analytic gradients
        c2 = copy.deepcopy(c)
        c2.gC = [[float(pgc[sg][k][j]) for j in range(c.d)] for sg in range(c.n) for k in range(nc)]
        c2.gT = [float(x) for x in pgt]
        second.append(c2)
    lines = [c.line(i, 'X') for i, c in enumerate(second)]
    cpp2, _ = runner.run_harness(harness(), lines)
    for i, c in enumerate(second):
        a = cpp2[str(i)]
        got = unpack_grads(c, fvals(a['prop_inner']), fvals(a['prop_times']), fvals(a['prop_b']))
        ana = unpack_grads(c, fvals(a['egi']), fvals(a['egt']), fvals(a['egb']))
        grad_compare(chk, c, got, ana, 'propagated partials vs analytic energy gradient', tolf[c.order] * 10)
    chk.sample(cases[0].describe())


# ----------------------------------------------------------------------------------------------- C13
def c13(chk):
    rng = chk.rng
    dl = [2, 3, 4, 5, 10] if not chk.thorough() else list(range(2, 11))
    nl = [1, 2, 3, 5] if not chk.thorough() else [1, 2, 3, 5, 8, 12]
    cases = std_cases(chk, with_grad=True, n_list=nl, d_list=dl, gkinds=('dense', 'rowsparse'))
    for c in cases:
        c.mode = 'dur'
    # coordinates of very different magnitude, on reused objects: a third of the problems get one coordinate scaled by 2^43 and
    # are followed, on the same D-dimensional object and on the same D one-dimensional objects, by the same problem with a
    # single waypoint entry of a *small* coordinate changed by 1/8 (relative to the whole waypoint matrix that is 1e-14: a
    # "nothing changed" test on an aggregate norm would skip the update of the D-dimensional object only)
    extra = []
    for q, c in enumerate(cases):
        if q % 3 or c.d < 2:
            continue
        jbig = rng.randrange(c.d)
        f = 2.0 ** 43
        c.P = [[x * f if j == jbig else x for j, x in enumerate(r)] for r in c.P]
        c.bc = [[x * f if j == jbig else x for j, x in enumerate(b)] for b in c.bc]
        c.slot = 500 + q
        c.meta['col_slot'] = 20000 + q * 16
        c2 = copy.deepcopy(c)
        jsmall = rng.choice([j for j in range(c.d) if j != jbig])
        c2.P[rng.randrange(c.n + 1)][jsmall] += 0.125
        c2.qorder = c.qorder % 10                 # plain update overload on the reused object
        c2.mode = 'dur'
        extra.append((q, c2))
        chk.count('magnitude disparity + tiny edit on reused objects')
    # upstream gradients of very different magnitude per coordinate: another third of the problems get one column of dL/dC scaled
    # by 2^-50 (a cost term with a tiny weight); propagation is linear, so that column's gradients are 2^-50 times as large and
    # are compared on their *own* scale (a "nothing to propagate" shortcut decided on the whole matrix or with an absolute
    # tolerance shows here)
    for q, c in enumerate(cases):
        if q % 3 != 1 or c.d < 2 or c.gC is None:
            continue
        jt = rng.randrange(c.d)
        c.gC = [[x * 2.0 ** -50 if j == jt else x for j, x in enumerate(r)] for r in c.gC]
        c.meta['tiny_col'] = jt
        chk.count('one column of the upstream gradient 2^-50 times the others')
    for q, c2 in reversed(extra):
        cases.insert(q + 1, c2)
    import optlib as _ol
    corp = [gen.from_desc(d) for d in _ol.corpus('C13')]      # past failures / false alarms run as well
    for q, c in enumerate(corp):
        c.slot = 900 + q
        if 'col_slot' in c.meta:
            c.meta['col_slot'] = 40000 + q * 16
    chk.notes['corpus_cases'] = len(corp)
    cases = corp + cases
    allc = []
    index = []
    for c in cases:
        base = len(allc)
        allc.append(c)
        for j in range(c.d):            # the D one-dimensional problems
            o = gen.SplineCase(c.order, 1, c.n, c.h, [[r[j]] for r in c.P], [[b[j]] for b in c.bc], t0=c.t0, mode='dur',
                               gC=[[r[j]] for r in c.gC], gT=[0.0] * c.n,
                               slot=(c.meta['col_slot'] + j if 'col_slot' in c.meta else -1))
            allc.append(o)
        perm = list(range(c.d)); rng.shuffle(perm)
        p = gen.SplineCase(c.order, c.d, c.n, c.h, [[r[k] for k in perm] for r in c.P], [[b[k] for k in perm] for b in c.bc],
                           t0=c.t0, mode='dur', gC=[[r[k] for k in perm] for r in c.gC], gT=c.gT)
        allc.append(p)
        index.append((base, c, perm))
    cpp, mod = run_both(allc)
    chk.evaluations += len(allc)
    T = 1e-11
    for base, c, perm in index:
        struct_cells(chk, c)
        a = cpp[str(base)]
        if 'col_slot' not in c.meta:      # (with one coordinate scaled by 2^43 the block-wise tolerance rule of section 4 does not apply:
            # a coefficient that is exactly 0 comes out as rounding noise of size 1e-16 * 7e13; the column comparisons below stay)
            compare(chk, c, a, mod[str(base)], ['coeffs', 'energy', 'prop_inner', 'prop_times', 'prop_b'], tol=TOL[c.order] * 10)
        ones = [cpp[str(base + 1 + j)] for j in range(c.d)]
        pa = cpp[str(base + 1 + c.d)]
        nc = NC[c.order]

        def col(tokens, width, j):
            v = fvals(tokens)
            return [v[r * width + j] for r in range(len(v) // width)]

        for j in range(c.d):
            for key in ('coeffs', 'prop_inner', 'prop_b', 'egi', 'egb', 'pgc'):
                x = col(a[key], c.d, j); y = fvals(ones[j][key])
                if len(x) != len(y):
                    chk.violation(f'{key}: sizes differ between the D-dimensional spline and its 1-D column', c.describe()); continue
                if not x:
                    continue
                if c.meta.get('tiny_col') == j and key in ('prop_inner', 'prop_b'):
                    own = max([abs(v) for v in x] + [abs(v) for v in y])
                    err = max(abs(p - q) for p, q in zip(x, y)) / own if own > 0 else Fr(0)
                else:
                    err = max(abs(p - q) for p, q in zip(x, y)) / block_scale(y)
                chk.disc(f'{c.order}/col_{key}', err)
                if err > T:
                    chk.violation(f'{key}: coordinate {j} of the D-dimensional spline differs from the 1-D spline of that coordinate',
                                  c.describe(), {'scaled_error': float(err)})
            # permutation equivariance: column perm^-1
            for key in ('coeffs', 'prop_inner', 'prop_b'):
                x = col(pa[key], c.d, j); y = col(a[key], c.d, perm[j])
                if x and max(abs(p - q) for p, q in zip(x, y)) / block_scale(y) > T:
                    chk.violation(f'{key}: permuting input coordinates does not permute the outputs', c.describe(), {'perm': perm})
        for key in ('energy', 'egt', 'pgt'):
            tot = [sum(t) for t in zip(*[fvals(o[key]) for o in ones])]
            x = fvals(a[key])
            err = max(abs(p - q) for p, q in zip(x, tot)) / block_scale(tot)
            chk.disc(f'{c.order}/sum_{key}', err)
            if err > 1e-10:
                chk.violation(f'{key} is not the sum over coordinates', c.describe(), {'scaled_error': float(err)})
        # duration gradient of propagateGrad: D-dim (with gT) = gT + sum of per-column contributions (gT = 0 there)
        tot = [sum(t) for t in zip(*[fvals(o['prop_times']) for o in ones])]
        tot = [x + Fr(g) for x, g in zip(tot, c.gT)]
        x = fvals(a['prop_times'])
        scale = block_scale(tot)
        if 'col_slot' in c.meta:
            # one coordinate is 2^43 times the others: its contribution to the duration gradient is a sum of products
            # (adjoint x coefficient) of size |gC| * |coefficients| that cancels analytically (often to exactly 0), so the
            # result carries rounding noise of that size times 1e-16 whatever the size of the total (DESIGN section 8 (ix))
            hmin = min(c.h)
            term = max(block_scale(fvals(o['coeffs'])) * max([Fr(1)] + [abs(Fr(r[0])) for r in o2.gC])
                       for o, o2 in zip(ones, allc[base + 1: base + 1 + c.d]))
            scale = max(scale, term * max(Fr(1), 1 / Fr(hmin)) ** 2)
            chk.count('sum of duration gradients judged on the scale of the largest coordinate (disparity cases)')
        err = max(abs(p - q) for p, q in zip(x, tot)) / scale
        chk.disc(f'{c.order}/sum_prop_times', err)
        if err > 1e-10:
            chk.violation('propagated duration gradient is not the sum over coordinates', c.describe(), {'scaled_error': float(err)})
    chk.sample(cases[0].describe())


# ----------------------------------------------------------------------------------------------- C14
def c14(chk):
    rng = chk.rng
    nl = [1, 2, 3, 5] if not chk.thorough() else [1, 2, 3, 4, 5, 8, 12]
    dl = [1, 2, 3, 4] if not chk.thorough() else [1, 2, 3, 4, 6, 10]
    cases = std_cases(chk, with_grad=False, n_list=nl, d_list=dl)
    allc, index = [], []
    for c in cases:
        c.mode = 'dur'
        s = S_OF[c.order]
        base = len(allc)
        shift = copy.deepcopy(c); shift.t0 = c.t0 + rng.choice([1.0, -37.5, 1024.0, 0.015625])
        tr = copy.deepcopy(c)
        vec = [gen.dyadic(rng, -64, 64, 2) for _ in range(c.d)]
        tr.P = [[x + v for x, v in zip(r, vec)] for r in c.P]
        k = rng.choice([-3, -1, 1, 2, 5])
        sc = copy.deepcopy(c)
        sc.P = [[x * 2.0 ** k for x in r] for r in c.P]; sc.bc = [[x * 2.0 ** k for x in b] for b in c.bc]
        # small and large factors: the relation is exact for every power of two, so it also reaches durations of hours and of
        # fractions of a millisecond (absolute thresholds inside the solver would show here)
        q = rng.choice([-2, -1, 1, 2, 11, 13, -8, -10, 17, 20])
        lam = 2.0 ** q
        tm = copy.deepcopy(c)
        tm.h = [x * lam for x in c.h]
        tm.bc = [[x / lam ** (m + 1) for x in c.bc[m]] for m in range(3)] + [[x / lam ** (m + 1) for x in c.bc[3 + m]] for m in range(3)]
        rv = copy.deepcopy(c)
        rv.h = c.h[::-1]; rv.P = c.P[::-1]
        rv.bc = [[(-1) ** (m + 1) * x for x in c.bc[3 + m]] for m in range(3)] + [[(-1) ** (m + 1) * x for x in c.bc[m]] for m in range(3)]
        allc += [c, shift, tr, sc, tm, rv]
        index.append((base, c, vec, k, lam))
    cpp, mod = run_both(allc)
    chk.evaluations += len(allc)
    for base, c, vec, k, lam in index:
        struct_cells(chk, c)
        r = [cpp[str(base + q)] for q in range(6)]
        compare(chk, c, r[0], mod[str(base)], ['coeffs', 'energy', 'egt', 'egi', 'egb'], tol=TOL[c.order] * 10)
        nc = NC[c.order]; s = S_OF[c.order]; d = c.d
        co = [coeff_table(x['coeffs'], c.n, nc, d) for x in r]
        en = [fvals(x['energy'])[0] for x in r]
        tol = TOL[c.order] * 10

        def bad(what, obs=None):
            chk.violation(what, c.describe(), obs)

        # shift: identical pieces, shifted knots
        if r[0]['coeffs'] != r[1]['coeffs'] or r[0]['energy'] != r[1]['energy']:
            bad('shifting the start time changes the per-segment polynomials or the energy')
        cum0, cum1 = fvals(r[0]['cum']), fvals(r[1]['cum'])
        dt = Fr(allc[base + 1].t0) - Fr(c.t0)
        if any(abs((b - a) - dt) > 8 * ulp(max(abs(a), abs(b), 1)) for a, b in zip(cum0, cum1)):
            bad('shifting the start time does not shift the knot times')
        # translation
        for sg in range(c.n):
            for kk in range(nc):
                for j in range(d):
                    want = co[0][sg][kk][j] + (Fr(vec[j]) if kk == 0 else 0)
                    scl = max(Fr(1), abs(want), abs(Fr(vec[j])) if kk else 1)
                    if abs(co[2][sg][kk][j] - want) > tol * scl * 64:
                        bad('translating the waypoints does not translate the trajectory', {'segment': sg, 'power': kk}); break
        if abs(en[2] - en[0]) > tol * 64 * max(Fr(1), en[0]):
            bad('translation changes the energy', {'e0': float(en[0]), 'e1': float(en[2])})
        for key in ('egt', 'egi', 'egb'):
            x, y = fvals(r[0][key]), fvals(r[2][key])
            if x and max(abs(p - q) for p, q in zip(x, y)) > tol * 64 * block_scale(x):
                bad(f'translation changes the energy gradient {key}')
        # spatial scaling by 2^k: exact
        f = Fr(2) ** k
        if any(co[3][sg][kk][j] != co[0][sg][kk][j] * f for sg in range(c.n) for kk in range(nc) for j in range(d)):
            bad('scaling waypoints and boundary states by a power of two does not scale the trajectory exactly', {'k': k})
        if abs(en[3] - en[0] * f * f) > 1e-12 * max(Fr(1), en[0] * f * f):
            bad('spatial scaling does not scale the energy by the square', {'k': k})
        # time scaling by lam = 2^q: c_k -> c_k / lam^k exactly, energy * lam^-(2s-1)
        L = Fr(lam)
        if any(co[4][sg][kk][j] != co[0][sg][kk][j] / L ** kk for sg in range(c.n) for kk in range(nc) for j in range(d)):
            bad('scaling all durations by a power of two (boundary derivatives rescaled) does not reparametrise the same curve exactly', {'lambda': lam})
        if abs(en[4] - en[0] / L ** (2 * s - 1)) > 1e-12 * max(Fr(1), en[0] / L ** (2 * s - 1)):
            bad('time scaling does not scale the energy by lambda^-(2s-1)', {'lambda': lam})
        # reversal: piece i of reversed = piece n-1-i of original re-centred at its end, t -> h - t
        h = [Fr(x) for x in c.h]
        for sg in range(c.n):
            o = c.n - 1 - sg
            for j in range(d):
                orig = [co[0][o][kk][j] for kk in range(nc)]
                rev = [co[5][sg][kk][j] for kk in range(nc)]
                for m in range(nc):
                    want = peval(orig, h[o], m) * (-1) ** m / math.factorial(m)
                    scl = max(Fr(1), max(abs(x) for x in orig[m:]) if orig[m:] else 1) * max(Fr(1), h[o]) ** (nc - 1 - m)
                    if abs(rev[m] - want) > tol * 1000 * scl:
                        bad('reversing waypoints/durations (odd boundary derivatives negated) does not give the time-reversed trajectory',
                            {'segment': sg, 'power': m, 'got': float(rev[m]), 'want': float(want)}); break
        if abs(en[5] - en[0]) > tol * 100 * max(Fr(1), en[0]):
            bad('time reversal changes the energy', {'e0': float(en[0]), 'e1': float(en[5])})
        g0 = unpack_grads(c, fvals(r[0]['egi']), fvals(r[0]['egt']), fvals(r[0]['egb']))
        g5 = unpack_grads(c, fvals(r[5]['egi']), fvals(r[5]['egt']), fvals(r[5]['egb']))
        nb = s - 1
        for key, v in g0.items():
            if key[0] == 'h':
                mk, sign = ('h', c.n - 1 - key[1], 0), 1
            elif key[0] == 'P':
                mk, sign = ('P', c.n - key[1], key[2]), 1
            else:
                b = key[1]
                m = b % 3
                mk, sign = ('bc', (b + 3) % 6, key[2]), (-1) ** (m + 1)
            nrm = max(Fr(1), max(abs(x) for kk2, x in g0.items() if kk2[0] == key[0]))
            if abs(g5[mk] - sign * v) > tol * 1000 * nrm:
                bad('time reversal does not mirror the energy gradients', {'component': key, 'got': float(g5[mk]), 'want': float(sign * v)}); break
    # very long trajectories (beyond any block size of a blocked summation): shift and reversal, implementation against itself
    longc = []
    for order in (3, 5, 7):
        for n in ([520, 1030] if not chk.thorough() else [513, 1025, 1537, 2100]):
            c = gen.spline_case(rng, order, 1, n, with_grad=False, short=1.0)
            c.mode = 'dur'
            sh = copy.deepcopy(c); sh.t0 = c.t0 + 37.5
            rv = copy.deepcopy(c)
            rv.h = c.h[::-1]; rv.P = c.P[::-1]
            rv.bc = [[(-1) ** (m + 1) * x for x in c.bc[3 + m]] for m in range(3)] + [[(-1) ** (m + 1) * x for x in c.bc[m]] for m in range(3)]
            longc += [c, sh, rv]
            chk.count('very long trajectory: shift and reversal')
    cppl = runner.run_harness(harness(), [c.line(i, 'Q') for i, c in enumerate(longc)])[0]
    chk.evaluations += len(longc)
    for b in range(0, len(longc), 3):
        c = longc[b]
        e = [fvals(cppl[str(b + q)]['energy'])[0] for q in range(3)]
        if cppl[str(b)]['coeffs'] != cppl[str(b + 1)]['coeffs'] or cppl[str(b)]['energy'] != cppl[str(b + 1)]['energy']:
            chk.violation('shifting the start time changes the per-segment polynomials or the energy', c.describe())
        if isinstance(e[0], float) or isinstance(e[2], float) or abs(e[2] - e[0]) > TOL[c.order] * 1000 * max(Fr(1), e[0]):
            chk.violation('time reversal changes the energy', c.describe(), {'e0': float(e[0]), 'e1': float(e[2])})
        t0s, t2s = fvals(cppl[str(b)]['egt']), fvals(cppl[str(b + 2)]['egt'])
        if len(t0s) == len(t2s) and t0s:
            nrm = max(Fr(1), max(abs(x) for x in t0s))
            if max(abs(x - y) for x, y in zip(t0s, t2s[::-1])) > TOL[c.order] * 10000 * nrm:
                chk.violation('time reversal does not mirror the energy gradients', c.describe(), {'component': 'durations'})
    chk.sample(cases[0].describe())


# ----------------------------------------------------------------------------------------------- C18
def c18(chk):
    """accepted range (every duration >= 1 ms, ratio <= 100): scaled residuals of the defining equations <= 1e-3"""
    rng = chk.rng
    reps = 6 if not chk.thorough() else 40
    cases = []
    for order in (3, 5, 7):
        for n in ([2, 3, 5, 8, 33] if not chk.thorough() else [2, 3, 4, 5, 8, 12, 20, 28, 33, 40]):
            for _ in range(reps):
                ratio = rng.choice([1, 4, 10, 20, 30, 50, 75, 100])
                lo = 10 ** rng.uniform(-3, 1 - math.log10(ratio))
                mode = rng.randrange(3)
                hs = []
                pick = rng.randrange(n)
                for i in range(n):
                    if mode == 0:
                        f = ratio if i == pick else 1.0          # single long among short
                    elif mode == 1:
                        f = 1.0 if i == pick else ratio          # single short among long
                    else:
                        f = math.exp(rng.uniform(0, math.log(ratio)))
                    hs.append(lo * f)
                hs = [max(x, 1.0e-3) for x in hs]
                if max(hs) / min(hs) > 100:
                    continue
                d = rng.choice([1, 2, 3])
                c = gen.SplineCase(order, d, n, hs, gen.points(rng, n + 1, d, short=0.5), gen.bc_vals(rng, order, d, short=0.5),
                                   t0=rng.choice([0.0, 0.0, 1.7e9 + 0.123, -4.1e10 - 0.7]), mode='dur')     # incl. wall-clock start times
                c.meta['placement'] = ['single-long', 'single-short', 'log-uniform'][mode]
                cases.append(c)
    lines = [c.line(i, 'X') for i, c in enumerate(cases)]
    cpp, _ = runner.run_harness(harness(), lines)
    # the Float instance of the model (same operation sequence) shows whether a loss is inherent in the algorithm
    flines = [c.line(i, 'F') for i, c in enumerate(cases)]
    fmod = runner.run_model_sharded(flines, 16)
    chk.evaluations += len(cases)
    for i, c in enumerate(cases):
        ratio = max(c.h) / min(c.h)
        rcls = '<=4' if ratio <= 4 else ('<=20' if ratio <= 20 else ('<=50' if ratio <= 50 else '<=100'))
        chk.cell(c.order, c.n, rcls, c.meta['placement'])
        chk.count(f'order{c.order}/ratio{rcls}')
        a = cpp[str(i)]
        w = c02_jumps(chk, c, a, thr=1e-3)
        c18_interp(chk, c, a)
        # tie to the Float model: same algorithm, so comparable loss
        wf = c02_jumps(_Silent(chk), c, fmod[str(i)], thr=1e-3)
        chk.disc(f'{c.order}/floatmodel_jump', wf)
        if w > 1e-3 and wf < 1e-6:
            chk.mismatch('implementation loses continuity where the Float instance of the model (same algorithm) does not',
                         c.describe(), {'impl': w, 'float_model': wf})
    # very long trajectories, through the published trajectory object and its own time axis (evaluation at every knot time,
    # knot times against the accumulated durations): the defining equations hold at the knots the object reports
    longc = []
    for order in (3, 5, 7):
        for n in ([1030] if not chk.thorough() else [513, 1025, 1537, 2100]):
            c = gen.spline_case(rng, order, 1, n, with_grad=False, short=1.0)
            c.mode = 'dur'
            cum = [c.t0]
            for x in c.h:
                cum.append(cum[-1] + x)
            c.evals = [(cum[i], m) for i in range(len(cum)) for m in range(S_OF[c.order])]
            longc.append(c)
            chk.count('very long trajectory (through the trajectory object)')
    cppl = runner.run_harness(harness(), [c.line(i, 'Q') for i, c in enumerate(longc)])[0]
    chk.evaluations += len(longc)
    for i, c in enumerate(longc):
        c01_oracle(chk, c, cppl[str(i)])
        c02_jumps(chk, c, cppl[str(i)], thr=1e-3)
    chk.sample(cases[0].describe())


class _Silent:
    def __init__(self, chk): self.chk = chk
    def violation(self, *a, **k): pass
    def disc(self, *a, **k): pass


def c18_interp(chk, c, rep):
    s = S_OF[c.order]; nc = NC[c.order]
    co = coeff_table(rep['coeffs'], c.n, nc, c.d)
    h = [Fr(x) for x in c.h]
    P = fr_rows(c.P)
    S = max(Fr(1), max(abs(x) for r in P for x in r))
    for i in range(c.n):
        for j in range(c.d):
            cj = [co[i][k][j] for k in range(nc)]
            if any(isinstance(x, float) for x in cj):
                chk.violation('coefficients are not finite', c.describe()); return
            r = abs(peval(cj, h[i]) - P[i + 1][j]) / S
            chk.disc(f'{c.order}/c18_interp', r)
            if r > 1e-3:
                chk.violation(f'interpolation residual above 1e-3 (segment {i})', c.describe(),
                              {'residual': float(r), 'equation_class': 'interpolation', 'ratio': float(max(c.h) / min(c.h))})
    for m in range(1, s):
        for j in range(c.d):
            cl = [co[c.n - 1][k][j] for k in range(nc)]
            want = Fr(c.bc[m + 2][j])
            r = abs(peval(cl, h[-1], m) - want) * h[-1] ** m / max(S, abs(want) * h[-1] ** m)
            chk.disc(f'{c.order}/c18_boundary', r)
            if r > 1e-3:
                chk.violation(f'end boundary derivative {m} residual above 1e-3', c.describe(),
                              {'residual': float(r), 'equation_class': 'boundary', 'ratio': float(max(c.h) / min(c.h))})


# ----------------------------------------------------------------------------------------------- C10 (spline part)
def c10_splines(chk):
    """histories of update calls on reused objects vs fresh objects: bit-identical; queries are pure"""
    rng = chk.rng
    hist_n = [5, 1, 4, 2, 7, 2, 1, 3, 9, 1, 6, 2, 2, 8]
    nh = 3 if not chk.thorough() else 12
    lines, meta = [], []
    rid = 0
    for order in (3, 5, 7):
        for d in (1, 3, 5):
            for hrep in range(nh):
                slot = 100 + hrep
                seq = hist_n[:] if hrep == 0 else [rng.choice([1, 2, 3, 4, 6, 9, 12]) for _ in range(rng.randint(4, 10))]
                prev = None
                for n in seq:
                    c = gen.spline_case(rng, order, d, n, gkind='dense')
                    if prev is not None and rng.random() < 0.4:
                        # same segment count and bit-identical durations as the previous problem on this object, other
                        # start time / data / time form: nothing may be carried over from the earlier problem
                        c = gen.spline_case(rng, order, d, prev.n, gkind='dense')
                        c.h = list(prev.h)
                        c.t0 = prev.t0 + rng.choice([0.5, -2.0, 3.25, 64.0])
                        c.mode = rng.choice(['dur', 'dur', 'tp'])
                        chk.count('history: same durations, new start time')
                    elif prev is not None and rng.random() < 0.35:
                        # the previous problem again with one waypoint entry (or one boundary entry) moved by a few ulps: an
                        # "inputs unchanged" shortcut that compares approximately keeps the old solution
                        c = copy.deepcopy(prev)
                        if rng.random() < 0.7:
                            r_ = rng.randrange(c.n + 1); j_ = rng.randrange(c.d)
                            c.P[r_][j_] += 2.0 ** -rng.choice([36, 44, 50]) * (1.0 + abs(c.P[r_][j_]))
                        else:
                            b_ = rng.randrange(6); j_ = rng.randrange(c.d)
                            c.bc[b_][j_] += 2.0 ** -rng.choice([36, 44, 50]) * (1.0 + abs(c.bc[b_][j_]))
                        c.meta['direct'] = True          # plain update call (no staging through other overloads / moves)
                        chk.count('history: previous problem with one entry moved by a few ulps')
                    prev = c
                    c.evals = [(c.t0 + rng.uniform(-0.5, sum(c.h) + 0.5), rng.randrange(0, NC[order] + 1)) for _ in range(3)]
                    variants = []
                    for slot_, qo in ((slot, rng.randrange(4) + (0 if c.meta.get('direct') else 10 * rng.choice([0, 0, 1, 2, 3]))), (-1, 0), (-1, 1)):
                        v = copy.deepcopy(c); v.slot = slot_; v.qorder = qo
                        variants.append(v)
                    for v in variants:
                        lines.append(v.line(rid, 'Q')); meta.append(v); rid += 1
    cpp, _ = runner.run_harness(harness(), lines)
    # stateless model on the reused-object requests only
    mod = runner.run_model_sharded([l for l, m in zip(lines, meta) if m.slot >= 0], 16)
    chk.evaluations += len(lines)
    for q in range(0, len(lines), 3):
        c = meta[q]
        struct_cells(chk, c, ('hist',))
        a, f0, f1 = cpp[str(q)], cpp[str(q + 1)], cpp[str(q + 2)]
        for key in a:
            if key == 'end':
                continue
            if a[key] != f0.get(key) or a.get(key + '*') != f0.get(key + '*'):
                chk.violation(f'reused spline object differs bit-for-bit from a freshly constructed one ({key})', c.describe(),
                              {'key': key, 'history_position': q // 3})
            if f0[key] != f1.get(key):
                chk.violation(f'read-only queries change later query results ({key} depends on query order)', c.describe(), {'key': key})
        # evaluations against the exact model only when the code's rounded knot times are the exact ones (section 4/8:
        # otherwise rounded knots are different inputs; the bit-for-bit reuse comparison above covers every case)
        if not exact_times(c):
            chk.count('ev-vs-model skipped (knot times not exactly representable)')
        compare(chk, c, a, mod[str(q)], ['coeffs', 'cum', 'energy', 'egt', 'egi', 'egb', 'prop_inner', 'prop_times', 'prop_b']
                + (['ev'] if exact_times(c) else []), tol=TOL[c.order] * 10)
    chk.sample(meta[0].describe())
