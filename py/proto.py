"""Line protocol shared by the C++ harness and the Lean model driver."""
import struct, math
from fractions import Fraction

def hx(x):
    """binary64 bit pattern as 16 hex digits"""
    return struct.pack('>d', float(x)).hex()

def unhx(s):
    return struct.unpack('>d', bytes.fromhex(s))[0]

def hxs(xs):
    return ' '.join(hx(x) for x in xs)

def dual(x, dx):
    return hx(x) + ',' + hx(dx)

def parse_val(tok):
    """value token from either side -> Fraction | float('nan'/'inf') ; dual -> (re, du)"""
    if ',' in tok:
        a, b = tok.split(',')
        return (parse_val(a), parse_val(b))
    if '/' in tok:
        n, d = tok.split('/')
        return Fraction(int(n), int(d))
    if len(tok) == 16:
        f = unhx(tok)
        if math.isnan(f) or math.isinf(f):
            return f
        return Fraction(f)
    return int(tok)

def parse_replies(text):
    """-> {id: {key: [tokens...]}} (a key may repeat: then list of lists under key+'*')"""
    out = {}
    for line in text.splitlines():
        parts = line.split()
        if len(parts) < 2:
            continue
        rid, key, rest = parts[0], parts[1], parts[2:]
        d = out.setdefault(rid, {})
        if key in d:
            d.setdefault(key + '*', [d[key]]).append(rest)
        else:
            d[key] = rest
    return out
