"""Run request lines through the C++ harness and the Lean model driver."""
import subprocess, os, sys, tempfile
from proto import parse_replies
import build


class HarnessCrash(Exception):
    def __init__(self, msg, stderr, last_id):
        super().__init__(msg)
        self.stderr = stderr
        self.last_id = last_id


def run_harness(exe, lines, env_extra=None, timeout=3600):
    env = dict(os.environ)
    env.setdefault('ASAN_OPTIONS', 'detect_leaks=0:abort_on_error=0')
    env.setdefault('UBSAN_OPTIONS', 'print_stacktrace=1')
    if env_extra:
        env.update(env_extra)
    save = os.environ.get('VERIF_SAVE_REQUESTS')
    if save:                      # development aid (py/coverage.py): keep every request stream for a coverage replay
        os.makedirs(save, exist_ok=True)
        n = len(os.listdir(save))
        with open(os.path.join(save, f'req{n:05d}_{os.getpid()}.txt'), 'w') as f:
            f.write('\n'.join(lines) + '\n')
            f.write('#ENV ' + ' '.join(f'{k}={v}' for k, v in (env_extra or {}).items()) + '\n')
    r = subprocess.run([exe], input='\n'.join(lines) + '\n', capture_output=True, text=True, env=env, timeout=timeout)
    rep = parse_replies(r.stdout)
    if r.returncode != 0:
        done = [k for k, v in rep.items() if 'end' in v]
        raise HarnessCrash(f'harness exited with {r.returncode}', r.stderr[-6000:], done[-1] if done else None)
    return rep, r.stderr


def run_model(lines, timeout=3600):
    """lines with mode X are not sent"""
    send = [l for l in lines if l.split()[1] != 'X']
    r = subprocess.run([build.model_exe()], input='\n'.join(send) + '\n', capture_output=True, text=True, timeout=timeout)
    if r.returncode != 0:
        raise RuntimeError('model driver failed: ' + r.stderr[-2000:])
    return parse_replies(r.stdout)


def run_model_sharded(lines, shards=8, timeout=3600):
    """stateless requests only: split across processes"""
    from concurrent.futures import ThreadPoolExecutor
    send = [l for l in lines if l.split()[1] != 'X']
    if len(send) < 2 * shards:
        return run_model(send, timeout)
    chunks = [send[i::shards] for i in range(shards)]
    out = {}
    with ThreadPoolExecutor(shards) as ex:
        for rep in ex.map(lambda c: run_model(c, timeout), chunks):
            out.update(rep)
    return out
