#!/usr/bin/env python3
"""Apply one seeded change to /repo (or $VERIF_REPO), run the listed checks, undo it.
usage: seedone.py <seed-dir-name> <Cxx> [<Cxx> ...] [--thorough]"""
import sys, os, subprocess, json
VERIF = os.path.dirname(os.path.dirname(os.path.abspath(__file__)))
REPO = os.environ.get('VERIF_REPO', '/repo')
args = [a for a in sys.argv[1:] if not a.startswith('--')]
tier = 'thorough' if '--thorough' in sys.argv else 'quick'
seed, pids = args[0], args[1:]
assert subprocess.run(['git', '-C', REPO, 'status', '--porcelain', '--untracked-files=no'], capture_output=True, text=True).stdout.strip() == '', 'repo dirty'
patch = os.path.join(VERIF, 'seeded', seed, 'patch.diff')
subprocess.run(['git', '-C', REPO, 'apply', patch], check=True)
try:
    for pid in pids:
        r = subprocess.run(['python3', os.path.join(VERIF, 'py', 'check.py'), pid, '--tier', tier, '--no-lean'], capture_output=True, text=True, cwd=VERIF)
        vio = [l for l in r.stdout.splitlines() if l.startswith('VIOLATION')]
        first = ''
        if vio:
            try:
                j = json.load(open(vio[0].split('replay=')[1].split()[0]))
                fl = j.get('failures') or j.get('broken_correspondence') or []
                first = fl[0]['what'] if fl else ''
            except Exception:
                first = '?'
        print(seed, pid, 'CAUGHT' if vio else 'MISSED', '::', first[:200], flush=True)
finally:
    subprocess.run(['git', '-C', REPO, 'checkout', '--', '.'], check=True)
