#!/usr/bin/env python3
"""Apply each seeded change under /verif/seeded to /repo, run the property's check, undo the change.
usage: seedtest.py [dir-name-prefix ...] [--tier quick] [--lean]"""
import sys, os, subprocess, json, time
VERIF = os.path.dirname(os.path.dirname(os.path.abspath(__file__)))
REPO = os.environ.get('VERIF_REPO', '/repo')   # a scratch clone may be used so that /repo itself stays untouched


def main():
    args = [a for a in sys.argv[1:] if not a.startswith('--')]
    lean = '--lean' in sys.argv
    tier = 'thorough' if '--thorough' in sys.argv else 'quick'
    seeds = sorted(os.listdir(os.path.join(VERIF, 'seeded')))
    if args:
        seeds = [s for s in seeds if any(s.startswith(a) for a in args)]
    assert subprocess.run(['git', '-C', REPO, 'status', '--porcelain', '--untracked-files=no'], capture_output=True, text=True).stdout.strip() == '', 'repo dirty'
    results = {}
    for s in seeds:
        d = os.path.join(VERIF, 'seeded', s)
        pid = s.split('-')[0]
        patch = os.path.join(d, 'patch.diff')
        r = subprocess.run(['git', '-C', REPO, 'apply', patch], capture_output=True, text=True)
        if r.returncode != 0:
            results[s] = 'PATCH DOES NOT APPLY: ' + r.stderr.strip()[:200]
            print(s, results[s]); continue
        t0 = time.time()
        try:
            cmd = ['python3', os.path.join(VERIF, 'py', 'check.py'), pid, '--tier', tier] + ([] if lean else ['--no-lean'])
            r = subprocess.run(cmd, capture_output=True, text=True, cwd=VERIF)
            vio = [l for l in r.stdout.splitlines() if l.startswith('VIOLATION')]
            first = ''
            if vio:
                rp = vio[0].split('replay=')[1].split()[0]
                try:
                    j = json.load(open(rp))
                    fl = j.get('failures') or j.get('broken_correspondence') or []
                    first = (fl[0]['what'] if fl else '') + (' | ' + str(j.get('broken_theorems'))[:100] if j.get('broken_theorems') else '')
                except Exception as e:
                    first = '?'
            results[s] = f'rc={r.returncode} {"CAUGHT" if r.returncode == 1 and vio else "MISSED"} {vio[0].split("replay=")[1] if vio else ""} :: {first[:160]} ({time.time()-t0:.0f}s)'
        finally:
            subprocess.run(['git', '-C', REPO, 'checkout', '--', '.'], check=True)
        print(s, results[s], flush=True)
    json.dump(results, open(os.path.join(VERIF, 'build', 'seedtest_last.json'), 'w'), indent=1)


if __name__ == '__main__':
    main()
