#!/usr/bin/env python3
"""Run once after a fresh restore (offline): build the Lean package (model, driver, proofs) and the harness."""
import sys, os, subprocess, time
sys.path.insert(0, os.path.dirname(os.path.abspath(__file__)))
import build

t0 = time.time()
r = subprocess.run(['lake', 'build'], cwd=build.LEAN)
if r.returncode != 0:
    print('lake build failed', file=sys.stderr)
    sys.exit(1)
print(f'[setup] lake build done in {time.time()-t0:.0f}s', file=sys.stderr)
for variant, parts in (('asan', ('opt', 'ppoly', 'spline')), ('asan', ('spline',)), ('asan', ('ppoly',)), ('tsan', ('opt_min',))):
    build.build_harness(variant, parts, verbose=True)
print(f'[setup] total {time.time()-t0:.0f}s', file=sys.stderr)
