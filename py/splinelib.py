"""Exact (Fraction) helpers on spline replies: parsing, polynomial calculus, dense optimality solve."""
from fractions import Fraction as Fr
from proto import parse_val
import math

NC = {3: 4, 5: 6, 7: 8}
S_OF = {3: 2, 5: 3, 7: 4}      # minimised derivative order s; boundary derivatives 1..s-1


def vals(tokens):
    return [parse_val(t) for t in tokens]


def re_part(v):
    return v[0] if isinstance(v, tuple) else v


def du_part(v):
    return v[1] if isinstance(v, tuple) else Fr(0)


def coeff_table(tokens, n, nc, d):
    """-> c[seg][k][dim]"""
    v = vals(tokens)
    assert len(v) == n * nc * d, (len(v), n, nc, d)
    return [[[v[(i * nc + k) * d + j] for j in range(d)] for k in range(nc)] for i in range(n)]


def falling(k, m):
    r = 1
    for i in range(m):
        r *= (k - i)
    return r


def peval(c, t, m=0):
    """m-th derivative at t of sum c[k] t^k (c: list of Fractions)"""
    t = Fr(t)
    acc = Fr(0)
    for k in range(len(c) - 1, m - 1, -1):
        acc = acc * t + falling(k, m) * c[k]
    return acc


def energy_exact(c, T, s):
    """∫_0^T (p^(s)(t))^2 dt for p = sum c[k] t^k"""
    T = Fr(T)
    d = [falling(k, s) * c[k] for k in range(s, len(c))]       # p^(s) = sum d[i] t^i
    tot = Fr(0)
    for a in range(len(d)):
        for b in range(len(d)):
            tot += d[a] * d[b] * T ** (a + b + 1) / (a + b + 1)
    return tot


def energy_partial_c(c, T, s):
    """∂/∂c[k] of energy_exact"""
    T = Fr(T)
    d = [falling(k, s) * c[k] for k in range(s, len(c))]
    out = [Fr(0)] * len(c)
    for k in range(s, len(c)):
        a = k - s
        out[k] = 2 * falling(k, s) * sum(d[b] * T ** (a + b + 1) / (a + b + 1) for b in range(len(d)))
    return out


def solve_exact(A, B):
    """Gaussian elimination over Fractions with partial (first non-zero) pivoting. A: n x n, B: n x m -> X n x m"""
    n = len(A)
    m = len(B[0])
    M = [list(A[i]) + list(B[i]) for i in range(n)]
    for col in range(n):
        piv = None
        for r in range(col, n):
            if M[r][col] != 0:
                piv = r
                break
        if piv is None:
            raise ZeroDivisionError('singular optimality system')
        M[col], M[piv] = M[piv], M[col]
        pv = M[col][col]
        M[col] = [x / pv for x in M[col]]
        for r in range(n):
            if r != col and M[r][col] != 0:
                f = M[r][col]
                rowc = M[col]
                M[r] = [x - f * y for x, y in zip(M[r], rowc)]
    return [row[n:] for row in M]


def dense_minimiser(order, h, P, bc):
    """Coefficients of the minimum-acceleration/jerk/snap interpolant from its *definition*:
    degree < 2s pieces, interpolation, C^{2s-2} at interior knots, boundary derivatives 1..s-1.
    h: durations (Fractions), P: rows of Fractions, bc: 6 blocks. -> c[seg][k][dim]"""
    s = S_OF[order]
    nc = 2 * s
    n = len(h)
    d = len(P[0])
    N = nc * n
    A = []
    B = []

    def row():
        return [Fr(0)] * N

    def put(r, seg, t, m, sign=1):
        for k in range(m, nc):
            r[seg * nc + k] += sign * falling(k, m) * (Fr(t) ** (k - m))

    for i in range(n):
        r = row(); put(r, i, 0, 0); A.append(r); B.append(list(P[i]))
        r = row(); put(r, i, h[i], 0); A.append(r); B.append(list(P[i + 1]))
    for i in range(1, n):
        for m in range(1, 2 * s - 1):
            r = row(); put(r, i - 1, h[i - 1], m); put(r, i, 0, m, -1); A.append(r); B.append([Fr(0)] * d)
    starts = [bc[0], bc[1], bc[2]]
    ends = [bc[3], bc[4], bc[5]]
    for m in range(1, s):
        r = row(); put(r, 0, 0, m); A.append(r); B.append(list(starts[m - 1]))
        r = row(); put(r, n - 1, h[n - 1], m); A.append(r); B.append(list(ends[m - 1]))
    assert len(A) == N
    X = solve_exact(A, B)
    return [[[X[i * nc + k][j] for j in range(d)] for k in range(nc)] for i in range(n)]


def fr_rows(rows):
    return [[Fr(x) for x in r] for r in rows]


def ulp(x):
    x = abs(float(x))
    if x == 0:
        return 5e-324
    return math.ulp(x)
