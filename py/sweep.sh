#!/bin/sh
# usage: sweep.sh <tier> <seed>...   : run every check at the given seeds, print one line per check
tier=$1; shift
python3 py/setup.py >/dev/null 2>&1
for s in "$@"; do
  for p in C01 C02 C03 C04 C05 C06 C07 C08 C09 C10 C11 C12 C13 C14 C15 C16 C17 C18 C19 C20; do
    out=$(VERIF_SEED=$s python3 py/check.py $p --tier $tier 2>&1)
    rc=$?
    echo "seed=$s $p rc=$rc $(echo "$out" | grep -E '^\[C|VIOLATION|KNOWN' | tr '\n' ' ')"
    if [ $rc -ne 0 ]; then cp replay/$p-$tier-$s.json /tmp/ 2>/dev/null; fi
  done
done
